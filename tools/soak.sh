#!/bin/bash
# tools/soak.sh <tier> <seed>...   — run every claimed check with the given seeds; report anything that is not exit 0
tier=$1; shift
cd "$(dirname "$(readlink -f "$0")")/.."
./check setup || exit 2
bad=0
for seed in "$@"; do
  for p in C01 C02 C03 C04 C05 C06 C07 C08 C09 C10 C11 C12 C13 C14 C15 C16 C17 C18 C19; do
    out=$(VERIF_SEED=$seed ./check $p $tier 2>&1); rc=$?
    echo "$out" | grep -E "^C[0-9]+ (quick|thorough) seed" 
    if [ $rc -ne 0 ]; then bad=1; echo "SOAK-FAIL $p seed=$seed rc=$rc"; echo "$out" | grep -E "VIOLATION|  #|INCONCL|error|panicked" | head -12; fi
  done
done
echo "SOAK-DONE bad=$bad"
