#!/usr/bin/env python3
"""Copy the sub-agents' seeded defects that I re-validated (tools/mutant_eval.sh) into /verif/seeded/<id>/
with a meta.json that records what the defect needs, what I ran and which check catches it."""
import json, os, re, shutil, subprocess, glob
out_root = "/verif/seeded"
rows = []
for d in sorted(glob.glob("/tmp/mutants/C*/m[0-9]*")):
    group, k = d.split("/")[-2], d.split("/")[-1]
    prop = group.split("-")[0]
    ev = os.path.join(d, "eval.txt")
    if not os.path.exists(ev):
        continue
    line = open(ev).read().strip()
    m = re.match(r"(\S+) (\S+): mutant=(.*?) check=(\S+) \| ?(.*)", line)
    if not m:
        continue
    verdict, det, first = m.group(3), m.group(4), m.group(5).strip()
    applies = subprocess.run(["git", "-C", "/repo", "apply", "--check", os.path.join(d, "patch.diff")], capture_output=True).returncode == 0
    sid = f"{group}-{k}"
    if verdict != "valid":
        rows.append((sid, prop, verdict, det, applies, first))
        continue
    dst = os.path.join(out_root, sid)
    os.makedirs(dst, exist_ok=True)
    shutil.copy(os.path.join(d, "patch.diff"), dst)
    shutil.copy(os.path.join(d, "demo.rs"), dst)
    try:
        agent_meta = json.load(open(os.path.join(d, "meta.json")))
    except Exception:
        agent_meta = {}
    meta = {
        "id": sid,
        "property_broken": prop,
        "source": "independent sub-agent given only the property text and a scratch worktree of /repo",
        "what_changed": agent_meta.get("what_changed"),
        "files": agent_meta.get("files"),
        "needs_to_manifest": agent_meta.get("needs_to_manifest"),
        "example_failing_input": agent_meta.get("example_failing_input"),
        "validated_by_me": "tools/mutant_eval.sh in scratch worktree /tmp/wt/%s (a worktree of /repo HEAD): patch applies; `cargo test --offline` fully green in one of at most three runs (the crate's randomized tests flake ~1/40 each on the unmodified tree); demo (cargo run --release --example) exits non-zero with the patch and 0 without" % prop,
        "patch_applies_to_repo_head": applies,
        "check_run": f"scratch copy of /verif/engine built against the patched worktree: vcheck {prop} quick (VERIF_SEED=0)",
        "detected": det == "DETECTED",
        "first_violation_reported": first,
        "agent_meta": agent_meta,
    }
    json.dump(meta, open(os.path.join(dst, "meta.json"), "w"), indent=1)
    rows.append((sid, prop, verdict, det, applies, first))
json.dump([{"id": r[0], "property": r[1], "mutant": r[2], "check": r[3], "applies_to_head": r[4], "first_violation": r[5]} for r in rows], open(os.path.join(out_root, "SUMMARY.json"), "w"), indent=1)
for r in rows:
    print(r[0], r[2], r[3], "applies" if r[4] else "NO-APPLY", "|", r[5][:90])
