#!/usr/bin/env python3
"""Regenerates /verif/MANIFEST.json from the table below (one entry per claimed property)."""
import json, os, subprocess
HERE = os.path.dirname(os.path.dirname(os.path.abspath(__file__)))
props = [json.loads(l) for l in open(os.path.join(HERE, "properties.jsonl"))]

NOTE = ("Trusted base: the exact dyadic reference model and posit-standard rounding in engine/src/refmodel.rs, "
        "cross-checked before every run against the independent fast encoder (fastref.rs) and the committed "
        "Python Fraction vectors; rustc/cargo; proptest. Generated search never proves absence outside the "
        "sub-domains reported as exhaustive in the evidence.")

# id -> (technique, level text, design_ref, extra note)
CLAIMS = {
 "C01": ("property-based testing: proptest pair / tie-directed / result-directed generators + complete enumeration (P8 pairs; P16 pairs in thorough) against an exact dyadic reference oracle",
         "Every generated or enumerated operand pair is evaluated under + - * / in both spellings and compared bit-for-bit with the exact real result rounded by an independent posit-standard rounding routine. P8 is decided completely (all 2^16 pairs), P16 completely in the thorough tier (all 2^32 pairs), P32 by structured generation (ties built backwards from thresholds, result-scale stratification, extreme-regime and sparse-fraction lattices).",
         "DESIGN.md section 6, C01"),
 "C02": ("property-based testing: proptest float-pattern generators (threshold lattice, specials, stratified exponents) + complete f32 enumeration (both tiers) against the exact dyadic reference oracle; metamorphic from_f32(x)==from_f64(x as f64)",
         "Every generated or enumerated f32/f64 bit pattern is converted to the three posit types through from_f32/from_f64, the From impls and the num_traits spellings (FromPrimitive::from_f32/from_f64, NumCast::from) and compared bit-for-bit with the posit rounding of the float's exact value; every 9- and 17-bit rounding threshold is placed exactly (+-1 ulp) as f64; all 2^32 f32 patterns in both tiers.",
         "DESIGN.md section 6, C02"),
 "C03": ("property-based testing: complete enumeration (P8, P16 and all 2^32 P32 patterns in both tiers) + proptest patterns; oracle = independent decoder value, round-trip identities",
         "to_f64/to_f32 of every pattern compared with the exact value from an independent decoder; f64 and Display/FromStr round trips must return the original bits. Complete for P8/P16 and for all 2^32 P32 patterns (float parts) in both tiers.",
         "DESIGN.md section 6, C03"),
 "C05": ("property-based testing: complete enumeration of all 2^24 P8 triples + proptest triple and tie-directed generators (cancellation-directed c) against the exact dyadic reference oracle",
         "mul_add, mul_sub and sub_product of every generated/enumerated triple compared bit-for-bit with the exact a*b+-c rounded once. P8 decided completely; P16/P32 by generation directed at cancellation, ties and extreme regimes.",
         "DESIGN.md section 6, C05"),
 "C06": ("property-based testing by complete enumeration (all patterns of P8, P16 and P32 in both tiers) + proptest inputs around perfect squares and squared thresholds; oracle decides sqrt by exact comparison with t^2",
         "sqrt of every pattern compared with the posit rounding of the exact root. Complete for P8, P16 and all 2^32 P32 patterns in both tiers.",
         "DESIGN.md section 6, C06"),
 "C07": ("property-based testing: complete enumeration of narrow integer types, of all 2^32 i32/u32 values and of all P8/P16/P32 patterns (both tiers) + proptest int64 generator with threshold-directed values; exact oracle",
         "from_<int> compared with the posit rounding of the integer's exact value; to_i32/u32/i64/u64 compared with round-half-even clamped to the type. Complete where the domain is <= 2^32 (both tiers), generated for 64-bit integers.",
         "DESIGN.md section 6, C07"),
 "C08": ("property-based testing: complete enumeration of P8/P16 sources and of every 9/17-bit threshold mapped into P32, and of all 2^32 P32 sources (both tiers) + proptest patterns; exact oracle; widening round-trip identity",
         "All six directed conversions through three spellings each compared with the posit rounding of the source value in the target format; widening exactness and the widen-narrow identity asserted.",
         "DESIGN.md section 6, C08"),
 "C04": ("stateful property-based testing: proptest-generated call histories (vec of steps + interpreter, tie-directed histories) against an exact dyadic model checked after every step; metamorphic order-independence; complete single-product enumeration for Q8",
         "Histories of += / -= of products and posits in every operand spelling (tuple, nested tuple, array, methods, Quire trait, linalg::quire_dot) are applied to the real quire and to an exact model in lock-step; after every step the 32/128/512-bit image, is_zero, is_nar and to_posit are compared with the model; NaR stickiness and order independence are asserted. Tie-directed histories put the deciding sticky bit at a drawn depth (any limb).",
         "DESIGN.md section 6, C04"),
 "C10": ("property-based testing: complete enumeration (all P8 pairs and 2^24 clamp triples, all PxE pairs for N <= 8, all P16 pairs in thorough) + proptest pairs/triples for wider types; oracle = order of independently decoded exact values",
         "All comparison operators and methods, min/max/clamp (bit-identical selection), neg, abs, signum, copysign and the classification predicates are compared with the real-number order / sign of independently decoded values, NaR below every real; for P8E0, P16E1, P32E2 and PxE1<N>, PxE2<N> for every N in 2..=32.",
         "DESIGN.md section 6, C10"),
 "C11": ("property-based testing by complete enumeration: all 65536 x 10 + 256 x 2 inputs against committed golden tables (mpmath >= 200 bits, enclosure-proved rounding decisions, exact rational special cases), cross-checked in-process by an f64 enclosure",
         "Every input of every listed function is evaluated and compared bit-for-bit with a correctly rounded golden value; the space is decided completely in both tiers.",
         "DESIGN.md section 6, C11"),
 "C12": ("stateful property-based testing: C04 histories with neg/clear inserted, checked against the exact model after every step and on the final state (from_bits/to_bits, neg, split, clear); complete posit->quire->posit round trip for P8/P16 (P32 in thorough)",
         "Round trip, negation, clear, bit round trip and the two/three-posit residual split are compared with exact dyadic arithmetic on every state reached by generated histories.",
         "DESIGN.md section 6, C12"),
 "C13": ("property-based testing: complete enumeration for small widths (all pairs N <= 8, all triples N <= 6) + proptest triples (bits x relation, tie-directed, result-directed) for every N in 2..=32 and both exponent sizes, exact dyadic oracle at width N; cross-type differential PxE2<32> == P32E2, PxE1<16> == P16E1",
         "+ - * / (operator and op-assign), mul_add, mul_sub, sub_product, sqrt, round of PxE1<N>/PxE2<N> compared bit-for-bit (incl. zero low bits) with the exact result rounded to an N-bit posit for all 31 widths and both families; widths up to 8 decided completely.",
         "DESIGN.md section 6, C13"),
 "C14": ("property-based testing: complete enumeration of P8/P16 sources and of generic sources up to N = 12, proptest sources with target-threshold lattices for every N in 2..=32, both families, all 961 (M,N) width pairs for generic<->generic, quire histories for Q32E2 -> PxE2<N>; exact oracle",
         "Every conversion to and from PxE1<N>/PxE2<N> (floats, fixed-width posits, integers, other generic widths / exponent sizes, Q32E2) through inherent and From spellings compared with exact-or-correctly-rounded expectations.",
         "DESIGN.md section 6, C14"),
 "C16": ("differential property-based testing between two builds of the same sources (overflow-checked vs plain optimised, worker process) + totality under panic capture and a watchdog; proptest inputs with specials for 1799 registered operations",
         "Each registered public operation is run on generated inputs in an overflow-checked build (no panic allowed except the committed todo!() stub table; watchdog for non-termination) and the optimised build must return identical bits.",
         "DESIGN.md section 6, C16"),
 "C15": ("property-based testing: scan of each unary function's 2^32 inputs (every 64th in quick, offset from the seed; ALL inputs in thorough), reduction-boundary lattices (k pi/2, (k+1/2) ln 2) + proptest boundary inputs and pairs; oracle = minimum encoding distance to the posit roundings of a widened libm interval",
         "The crate's answer for every generated/enumerated in-domain argument must lie within the stated number of encodings of the correctly rounded value (reference error can only hide, never create, a violation); NaR and out-of-domain clauses are asserted exactly. The evidence carries the full ulp-error histogram per function.",
         "DESIGN.md section 6, C15"),
 "C17": ("differential property-based testing between spellings (no reference model): all P8 pairs + proptest operands; lock-step quires over generated histories",
         "Every forwarding spelling (operator traits, op-assign, From/Into, num_traits impls, Quire trait, aliases) is compared bit-for-bit (or panic-for-panic) with the inherent operation on generated inputs.",
         "DESIGN.md section 6, C17"),
 "C18": ("property-based testing: proptest x / coefficient arrays (incl. power-of-two arrays and [P;2],[P;3] coefficients) for all 20 polynomial forms against an exact dyadic oracle that rounds once per documented quire stage",
         "poly1..poly18, poly3a, poly4a are compared bit-for-bit with exact fused sums rounded once per documented stage, powers individually rounded.",
         "DESIGN.md section 6, C18"),
 "C19": ("property-based testing with scripted RNGs: the sampler's whole index space enumerated through the RNG words (P8, P16 complete; P32 strided / complete in thorough), proptest word streams, real generators from generated seeds",
         "Every sample is judged on its independently decoded value (real, 0 <= p < 1); the outcome space of the Standard distribution is enumerated rather than sampled.",
         "DESIGN.md section 6, C19"),
 "C09": ("property-based testing: complete enumeration (P8, P16; P32 in thorough, strided in quick) + proptest inputs around integers and half-integers; exact dyadic oracle that also asserts representability",
         "round/floor/ceil/trunc/fract of every pattern compared with the exact integer functions; complete for P8/P16 and for all 2^32 P32 patterns in the thorough tier.",
         "DESIGN.md section 6, C09"),
}
UNCLAIMED_REASON = "check not built yet (work in progress in this session); the property is decidable by generated search and will be claimed once its check exists"

checks = []
for p in props:
    pid = p["id"]
    if pid not in CLAIMS:
        continue
    tech, text, ref = CLAIMS[pid][:3]
    checks.append({
        "property_id": pid,
        "quick_cmd": f"./check {pid} quick",
        "thorough_cmd": f"./check {pid} thorough",
        "evidence_file": f"/verif/evidence/{pid}.json",
        "replay_cmd_template": "./check --replay {path}",
        "engine": "vcheck",
        "level_claimed": {"category": "exploration", "text": text, "design_ref": ref},
        "level_note": NOTE,
        "technique": tech + ("" if pid == "C16" else "; thorough tier adds a coverage-guided libFuzzer campaign (cargo-fuzz target engine/fuzz, 16 jobs x 1.5M runs, 0.3M for history properties) over the property's operation table with the same oracle inside the target"),
    })
hooks_commits = []
manifest = {
    "version": 1,
    "setup_cmd": "./check setup",
    "hooks": {
        "guard": "none",
        "enable": "no hooks: every property is observable through the crate's public API (existing cargo features rand and linalg are enabled by the harness)",
        "baseline_off_cmd": "cd /repo && cargo test --workspace --no-fail-fast --offline",
        "source_commits": hooks_commits,
        "add_only": True,
    },
    "engines": [{"name": "vcheck", "path": "/verif/engine", "serves_properties": [c["property_id"] for c in checks],
                 "kind_free_text": "Rust binary built twice from the same sources (overflow-checked and plain optimised profile); proptest TestRunner-driven generators with fixed seeds derived from VERIF_SEED, rayon-parallel complete enumerations, exact dyadic reference model + independent fast posit encoder as oracles; thorough tiers additionally drive a libFuzzer target (engine/fuzz, built with cargo +nightly fuzz) compiled from the same oracle sources"}],
    "checks": checks,
    "notes": "exit codes: 0 held, 1 VIOLATION line(s), 2 inconclusive (build / oracle self-test / harness error). Known findings: /verif/known_findings.json.",
    "not_applicable": [{"property_id": p["id"], "reason": UNCLAIMED_REASON} for p in props if p["id"] not in CLAIMS],
}
json.dump(manifest, open(os.path.join(HERE, "MANIFEST.json"), "w"), indent=1)
print("claimed:", [c["property_id"] for c in checks])
