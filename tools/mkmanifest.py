#!/usr/bin/env python3
"""Regenerates /verif/MANIFEST.json from the table below (one entry per claimed property)."""
import json, os, subprocess
HERE = os.path.dirname(os.path.dirname(os.path.abspath(__file__)))
props = [json.loads(l) for l in open(os.path.join(HERE, "properties.jsonl"))]

NOTE = ("Trusted base: the exact dyadic reference model and posit-standard rounding in engine/src/refmodel.rs, "
        "cross-checked before every run against the independent fast encoder (fastref.rs) and the committed "
        "Python Fraction vectors; rustc/cargo; proptest. Generated search never proves absence outside the "
        "sub-domains reported as exhaustive in the evidence.")

# id -> (technique, level text, design_ref, extra note)
CLAIMS = {
 "C01": ("property-based testing: proptest pair / tie-directed / result-directed generators + complete enumeration (P8 pairs; P16 pairs in thorough) against an exact dyadic reference oracle",
         "Every generated or enumerated operand pair is evaluated under + - * / in both spellings and compared bit-for-bit with the exact real result rounded by an independent posit-standard rounding routine. P8 is decided completely (all 2^16 pairs), P16 completely in the thorough tier (all 2^32 pairs), P32 by structured generation (ties built backwards from thresholds, result-scale stratification, extreme-regime and sparse-fraction lattices).",
         "DESIGN.md section 6, C01"),
 "C02": ("property-based testing: proptest float-pattern generators (threshold lattice, specials, stratified exponents) + complete f32 enumeration (thorough) against the exact dyadic reference oracle; metamorphic from_f32(x)==from_f64(x as f64)",
         "Every generated or enumerated f32/f64 bit pattern is converted to the three posit types through from_f32/from_f64 and the From impls and compared bit-for-bit with the posit rounding of the float's exact value; every 9- and 17-bit rounding threshold is placed exactly (+-1 ulp) as f64; all 2^32 f32 patterns in the thorough tier (1/8 of them in quick).",
         "DESIGN.md section 6, C02"),
 "C03": ("property-based testing: complete enumeration (P8, P16; P32 in thorough) + proptest patterns; oracle = independent decoder value, round-trip identities",
         "to_f64/to_f32 of every pattern compared with the exact value from an independent decoder; f64 and Display/FromStr round trips must return the original bits. Complete for P8/P16 and, in the thorough tier, for all 2^32 P32 patterns (float parts).",
         "DESIGN.md section 6, C03"),
 "C05": ("property-based testing: complete enumeration of all 2^24 P8 triples + proptest triple and tie-directed generators (cancellation-directed c) against the exact dyadic reference oracle",
         "mul_add, mul_sub and sub_product of every generated/enumerated triple compared bit-for-bit with the exact a*b+-c rounded once. P8 decided completely; P16/P32 by generation directed at cancellation, ties and extreme regimes.",
         "DESIGN.md section 6, C05"),
 "C06": ("property-based testing: complete enumeration (P8, P16; P32 in thorough, 1/16 strided in quick) + proptest inputs around perfect squares and squared thresholds; oracle decides sqrt by exact comparison with t^2",
         "sqrt of every pattern compared with the posit rounding of the exact root. Complete for P8/P16, and for all 2^32 P32 patterns in the thorough tier.",
         "DESIGN.md section 6, C06"),
 "C07": ("property-based testing: complete enumeration of narrow integer types and of P8/P16 (all 2^32 i32/u32 values and P32 patterns in thorough) + proptest int64 generator with threshold-directed values; exact oracle",
         "from_<int> compared with the posit rounding of the integer's exact value; to_i32/u32/i64/u64 compared with round-half-even clamped to the type. Complete where the domain is <= 2^32 (thorough), generated for 64-bit integers.",
         "DESIGN.md section 6, C07"),
 "C08": ("property-based testing: complete enumeration of P8/P16 sources and of every 9/17-bit threshold mapped into P32 (all 2^32 P32 sources in thorough) + proptest patterns; exact oracle; widening round-trip identity",
         "All six directed conversions through three spellings each compared with the posit rounding of the source value in the target format; widening exactness and the widen-narrow identity asserted.",
         "DESIGN.md section 6, C08"),
 "C09": ("property-based testing: complete enumeration (P8, P16; P32 in thorough, strided in quick) + proptest inputs around integers and half-integers; exact dyadic oracle that also asserts representability",
         "round/floor/ceil/trunc/fract of every pattern compared with the exact integer functions; complete for P8/P16 and for all 2^32 P32 patterns in the thorough tier.",
         "DESIGN.md section 6, C09"),
}
UNCLAIMED_REASON = "check not built yet (work in progress in this session); the property is decidable by generated search and will be claimed once its check exists"

checks = []
for p in props:
    pid = p["id"]
    if pid not in CLAIMS:
        continue
    tech, text, ref = CLAIMS[pid][:3]
    checks.append({
        "property_id": pid,
        "quick_cmd": f"./check {pid} quick",
        "thorough_cmd": f"./check {pid} thorough",
        "evidence_file": f"/verif/evidence/{pid}.json",
        "replay_cmd_template": "./check --replay {path}",
        "engine": "vcheck",
        "level_claimed": {"category": "exploration", "text": text, "design_ref": ref},
        "level_note": NOTE,
        "technique": tech,
    })
hooks_commits = []
manifest = {
    "version": 1,
    "setup_cmd": "./check setup",
    "hooks": {
        "guard": "none",
        "enable": "no hooks: every property is observable through the crate's public API (existing cargo features rand and linalg are enabled by the harness)",
        "baseline_off_cmd": "cd /repo && cargo test --workspace --no-fail-fast --offline",
        "source_commits": hooks_commits,
        "add_only": True,
    },
    "engines": [{"name": "vcheck", "path": "/verif/engine", "serves_properties": [c["property_id"] for c in checks],
                 "kind_free_text": "Rust binary built twice from the same sources (overflow-checked and plain optimised profile); proptest TestRunner-driven generators with fixed seeds derived from VERIF_SEED, rayon-parallel complete enumerations, exact dyadic reference model + independent fast posit encoder as oracles"}],
    "checks": checks,
    "notes": "exit codes: 0 held, 1 VIOLATION line(s), 2 inconclusive (build / oracle self-test / harness error). Known findings: /verif/known_findings.json.",
    "not_applicable": [{"property_id": p["id"], "reason": UNCLAIMED_REASON} for p in props if p["id"] not in CLAIMS],
}
json.dump(manifest, open(os.path.join(HERE, "MANIFEST.json"), "w"), indent=1)
print("claimed:", [c["property_id"] for c in checks])
