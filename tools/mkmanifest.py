#!/usr/bin/env python3
"""Regenerates /verif/MANIFEST.json from the table below (one entry per claimed property)."""
import json, os, subprocess
HERE = os.path.dirname(os.path.dirname(os.path.abspath(__file__)))
props = [json.loads(l) for l in open(os.path.join(HERE, "properties.jsonl"))]

NOTE = ("Trusted base: the exact dyadic reference model and posit-standard rounding in engine/src/refmodel.rs, "
        "cross-checked before every run against the independent fast encoder (fastref.rs) and the committed "
        "Python Fraction vectors; rustc/cargo; proptest. Generated search never proves absence outside the "
        "sub-domains reported as exhaustive in the evidence.")

# id -> (technique, level text, design_ref, extra note)
CLAIMS = {
 "C01": ("property-based testing: proptest pair / tie-directed / result-directed generators + complete enumeration (P8 pairs; P16 pairs in thorough) against an exact dyadic reference oracle",
         "Every generated or enumerated operand pair is evaluated under + - * / in both spellings and compared bit-for-bit with the exact real result rounded by an independent posit-standard rounding routine. P8 is decided completely (all 2^16 pairs), P16 completely in the thorough tier (all 2^32 pairs), P32 by structured generation (ties built backwards from thresholds, result-scale stratification, extreme-regime and sparse-fraction lattices).",
         "DESIGN.md section 6, C01"),
}
UNCLAIMED_REASON = "check not built yet (work in progress in this session); the property is decidable by generated search and will be claimed once its check exists"

checks = []
for p in props:
    pid = p["id"]
    if pid not in CLAIMS:
        continue
    tech, text, ref = CLAIMS[pid][:3]
    checks.append({
        "property_id": pid,
        "quick_cmd": f"./check {pid} quick",
        "thorough_cmd": f"./check {pid} thorough",
        "evidence_file": f"/verif/evidence/{pid}.json",
        "replay_cmd_template": "./check --replay {path}",
        "engine": "vcheck",
        "level_claimed": {"category": "exploration", "text": text, "design_ref": ref},
        "level_note": NOTE,
        "technique": tech,
    })
hooks_commits = []
manifest = {
    "version": 1,
    "setup_cmd": "./check setup",
    "hooks": {
        "guard": "none",
        "enable": "no hooks: every property is observable through the crate's public API (existing cargo features rand and linalg are enabled by the harness)",
        "baseline_off_cmd": "cd /repo && cargo test --workspace --no-fail-fast --offline",
        "source_commits": hooks_commits,
        "add_only": True,
    },
    "engines": [{"name": "vcheck", "path": "/verif/engine", "serves_properties": [c["property_id"] for c in checks],
                 "kind_free_text": "Rust binary built twice from the same sources (overflow-checked and plain optimised profile); proptest TestRunner-driven generators with fixed seeds derived from VERIF_SEED, rayon-parallel complete enumerations, exact dyadic reference model + independent fast posit encoder as oracles"}],
    "checks": checks,
    "notes": "exit codes: 0 held, 1 VIOLATION line(s), 2 inconclusive (build / oracle self-test / harness error). Known findings: /verif/known_findings.json.",
    "not_applicable": [{"property_id": p["id"], "reason": UNCLAIMED_REASON} for p in props if p["id"] not in CLAIMS],
}
json.dump(manifest, open(os.path.join(HERE, "MANIFEST.json"), "w"), indent=1)
print("claimed:", [c["property_id"] for c in checks])
