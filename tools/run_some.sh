#!/bin/bash
# tools/run_some.sh <tier> <seed> <Cxx>...
tier=$1; seed=$2; shift 2
cd "$(dirname "$(readlink -f "$0")")/.."
./check setup || exit 2
for p in "$@"; do
  out=$(VERIF_SEED=$seed ./check $p $tier 2>&1); rc=$?
  echo "$out" | grep -E "^C[0-9]+ (quick|thorough) seed"
  [ $rc -ne 0 ] && { echo "FAIL $p rc=$rc"; echo "$out" | grep -E "VIOLATION|  #|INCONCL|panicked" | head; }
done
echo DONE
