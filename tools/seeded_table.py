#!/usr/bin/env python3
"""Regenerate seeded/TABLE.md and the full table + counts of DESIGN.md section 7 from seeded/*/meta.json."""
import json, glob, os, re
rows = []
for d in sorted(glob.glob("/verif/seeded/C*")):
    if not os.path.isdir(d):
        continue
    m = json.load(open(d + "/meta.json"))
    what = re.sub(r"\s+", " ", (m.get("what_changed") or ""))[:150]
    needs = re.sub(r"\s+", " ", (m.get("needs_to_manifest") or ""))[:110]
    fv = re.sub(r"\s+", " ", m.get("first_violation_reported", "").replace("# ", ""))[:90]
    rows.append((m["id"], m["property_broken"], what, needs, "yes" if m["detected"] else "NO", fv))
out = "| seeded id | breaks | change (agent's words, abridged) | needs | caught by the property's quick check | first violation reported |\n|---|---|---|---|---|---|\n"
for r in rows:
    out += "| " + " | ".join(x.replace("|", "\\|") for x in r) + " |\n"
s = open("/verif/DESIGN.md").read()
a = s.index("| seeded id | breaks |")
b = s.index("---------------------------------------------------------------------------------------------------\n\n## 8.")
s = s[:a] + out + "\n" + s[b:]
n = len(rows)
det = sum(1 for r in rows if r[4] == "yes")
s = re.sub(r"`seeded/TABLE.md` \(\d+ defects:[^)]*\)\.", f"`seeded/TABLE.md` ({n} defects: 19 × 3 first round, a second adversarial round for all 19 properties, a third \"rare by construction\" round for 14, a fourth with mechanisms not used before for 14, a fifth for C15 and C17, one more for C15 and C03, and a final \"forgotten clause / obscure cell\" round of two each for C02, C07, C10, C12, C13, C14, C16, C19).", s)
s = re.sub(r"\*\*Result: \d+ of \d+ are caught", f"**Result: {det} of {n} are caught", s)
open("/verif/DESIGN.md", "w").write(s)
open("/verif/seeded/TABLE.md", "w").write(out)
print(n, "rows,", det, "detected")
