#!/bin/bash
# Line/region coverage of /repo/src reached by the checks (generator-quality measurement, DESIGN.md 3.6).
# Builds an llvm-cov-instrumented copy of the engine in a scratch target dir, runs every property's
# quick check single-threaded with its work thinned by VCHECK_COV_DIV (instrumented counters are
# shared between threads and make the full tier take hours), and prints per-file coverage of the
# crate under test plus the list of never-executed functions. Decides nothing; not a registered command.
#   tools/coverage.sh [div=64] [props...]
set -u
VERIF=$(dirname "$(dirname "$(readlink -f "$0")")")
DIV=${1:-64}; shift || true
PROPS=${*:-C01 C02 C03 C04 C05 C06 C07 C08 C09 C10 C11 C12 C13 C14 C15 C17 C18 C19}
S=${COV_SCRATCH:-/tmp/vcov}
BIN=$HOME/.rustup/toolchains/nightly-x86_64-unknown-linux-gnu/lib/rustlib/x86_64-unknown-linux-gnu/bin
mkdir -p $S/verif/evidence $S/verif/replays $S/raw
cp -r $VERIF/golden $VERIF/corpus $VERIF/known_findings.json $VERIF/c16_stubs.json $S/verif/
export LLVM_PROFILE_FILE=$S/raw/build-%p.profraw
(cd $VERIF/engine && CARGO_NET_OFFLINE=true RUSTFLAGS="-C instrument-coverage" cargo +nightly build --profile fast --target-dir $S/target 2>&1 | tail -1) || exit 2
rm -f $S/raw/*.profraw
for p in $PROPS; do
  LLVM_PROFILE_FILE=$S/raw/$p.profraw VCHECK_VERIF_DIR=$S/verif VCHECK_COV_DIV=$DIV RAYON_NUM_THREADS=4 \
    $S/target/fast/vcheck $p quick | grep -E "^C[0-9]+ quick" 
done
$BIN/llvm-profdata merge -sparse $S/raw/*.profraw -o $S/all.profdata
$BIN/llvm-cov report $S/target/fast/vcheck -instr-profile=$S/all.profdata --ignore-filename-regex='(\.cargo|rustc|/verif/)' 2>/dev/null > $S/report.txt
$BIN/llvm-cov export $S/target/fast/vcheck -instr-profile=$S/all.profdata --ignore-filename-regex='(\.cargo|rustc|/verif/)' -format=lcov 2>/dev/null > $S/lcov.info
tail -1 $S/report.txt
echo "report: $S/report.txt  lcov: $S/lcov.info"
