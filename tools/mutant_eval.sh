#!/bin/bash
# Evaluate seeded defects of one property WITHOUT touching /repo:
#   tools/mutant_eval.sh <Cxx> [<dir-with-m1,m2,...> [<worktree>]]
# For each <dir>/m<k>/{patch.diff,demo.rs}: in the scratch worktree confirm (1) patch applies and the
# crate's test suite passes, (2) the demo fails with the patch and passes without; then build a scratch
# copy of the engine against the worktree and run `vcheck <Cxx> quick` on the mutated tree.
# Results: <dir>/m<k>/eval.txt  (one summary line) and eval.log.
set -u
P=$1; DIR=${2:-/tmp/mutants/$P}; WT=${3:-/tmp/wt/$P}
ME=/tmp/meng/$P
mkdir -p $ME/out
rsync -a --delete --exclude target /verif/engine/ $ME/engine/
sed -i "s#path = \"/repo\"#path = \"$WT\"#" $ME/engine/Cargo.toml
for d in golden corpus known_findings.json c16_stubs.json; do rm -rf $ME/out/$d; cp -r /verif/$d $ME/out/$d 2>/dev/null; done
export CARGO_NET_OFFLINE=true VCHECK_VERIF_DIR=$ME/out
for m in $(ls -d $DIR/m[0-9]*/ 2>/dev/null | sort); do m=${m%/}
  k=$(basename $m); log=$m/eval.log; : > $log
  git -C $WT checkout -q -- . ; rm -f $WT/examples/demo_*.rs
  feat=""; grep -q "rand::" $m/demo.rs && feat="--features rand"
  cp $m/demo.rs $WT/examples/demo_$k.rs
  (cd $WT && timeout 600 cargo run --offline --release $feat --example demo_$k) >>$log 2>&1; clean1=$?
  rm -f $WT/examples/demo_$k.rs   # (an example needing a feature would break the plain `cargo test` build)
  if ! git -C $WT apply $m/patch.diff >>$log 2>&1; then echo "$P $k: PATCH-DOES-NOT-APPLY" | tee $m/eval.txt; continue; fi
  # the crate's own random tests are flaky (their f64 oracle double-rounds, ~1 run in 6 fails on the
  # unmodified tree): a mutant "passes the suite" if one of up to three runs is fully green
  tests=1
  for try in 1 2 3; do (cd $WT && timeout 1500 cargo test --offline) >>$log 2>&1 && { tests=0; break; }; done
  cp $m/demo.rs $WT/examples/demo_$k.rs
  (cd $WT && timeout 600 cargo run --offline --release $feat --example demo_$k) >>$log 2>&1; mut=$?
  (cd $ME/engine && cargo build --offline --profile checked) >>$log 2>&1; build=$?
  if [ "$P" = C16 ]; then (cd $ME/engine && cargo build --offline --profile fast) >>$log 2>&1 || build=1; fi
  rm -rf $ME/out/replays
  (cd $ME/engine && timeout 1800 ./target/checked/vcheck $P quick) > $m/check.out 2>&1; chk=$?
  grep -E "VIOLATION|  #" $m/check.out | head -6 >> $log
  git -C $WT checkout -q -- . ; rm -f $WT/examples/demo_$k.rs
  verdict="valid"; [ $clean1 -ne 0 ] && verdict="INVALID(demo fails on clean tree)"; [ $tests -ne 0 ] && verdict="INVALID(tests fail:$tests)"; [ $mut -eq 0 ] && verdict="INVALID(demo passes with patch)"
  det="MISSED"; [ $chk -eq 1 ] && det="DETECTED"; [ $chk -ge 2 ] && det="CHECK-ERROR($chk)"; [ $build -ne 0 ] && det="ENGINE-BUILD-FAILED"
  echo "$P $k: mutant=$verdict check=$det | $(grep -m1 '  #' $m/check.out)" | tee $m/eval.txt
done
