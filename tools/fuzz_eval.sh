#!/bin/bash
# Sensitivity of the libFuzzer stage alone (DESIGN.md 7): for each seeded defect given, apply its patch
# to /repo, run the property's fuzz stage only (no generated sections), undo the patch.
#   tools/fuzz_eval.sh <seeded-id>...       e.g. tools/fuzz_eval.sh C13-m1 C04-m2
# Output: one line per defect: FOUND (first violation) or NOT-FOUND within the budget.
VERIF=$(dirname "$(dirname "$(readlink -f "$0")")")
for id in "$@"; do
  d=$VERIF/seeded/$id
  [ -f $d/patch.diff ] || { echo "$id: no patch"; continue; }
  prop=${id%%-*}
  git -C /repo checkout -q -- . ; git -C /repo apply $d/patch.diff || { echo "$id: patch does not apply"; continue; }
  out=$(VCHECK_FUZZ_ONLY=1 VCHECK_FUZZ_RUNS=${FUZZ_RUNS:-1500000} $VERIF/check $prop thorough 2>&1)
  git -C /repo checkout -q -- .
  git -C $VERIF checkout -q -- evidence/$prop.json 2>/dev/null   # a tooling run on a mutated tree must not leave its evidence behind
  rm -f $VERIF/replays/$prop-*.json
  v=$(echo "$out" | grep -A1 "^VIOLATION" | tail -1)
  stats=$(echo "$out" | grep "libFuzzer" | grep -o "evals=[0-9]* nontrivial=[0-9]*.* [0-9.]*s$")
  if [ -n "$v" ]; then echo "$id: FOUND $v | $stats"; else echo "$id: NOT-FOUND | $stats $(echo "$out" | grep -i "inconclusive" | head -2 | cut -c1-200)"; fi
done
git -C /repo status --short | head -3
