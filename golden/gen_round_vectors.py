#!/usr/bin/env python3
"""Writes golden/round_vectors.json: exact dyadic values and their posit-standard rounding computed
by the third, Fraction-based implementation (posit_ref.py).  Replayed by `vcheck selftest`.
Deterministic (fixed seed); run with any python3."""
import json, random, sys, os
from fractions import Fraction
sys.path.insert(0, os.path.dirname(__file__))
from posit_ref import decode, round_posit

rnd = random.Random(20260927)
vec = []
def add(n, es, x):
    if x == 0: return
    neg = x < 0
    a = abs(x)
    # write a as mant * 2^exp with integer mant < 2^120
    exp = 0
    num, den = a.numerator, a.denominator
    assert den & (den - 1) == 0
    exp = -(den.bit_length() - 1)
    mant = num
    while mant % 2 == 0:
        mant //= 2; exp += 1
    if mant.bit_length() > 120: return
    vec.append([n, es, neg, format(mant, 'x'), exp, round_posit(n, es, x)])

for (n, es) in [(8, 0), (16, 1), (32, 2)] + [(rnd.randint(2, 32), rnd.randint(0, 2)) for _ in range(40)]:
    for _ in range(60):
        # thresholds of the (n+1)-bit format, exact and nudged
        w = rnd.getrandbits(n + 1) | 1
        v = decode(n + 1, es, w)
        if v is None: continue
        for d in (0, 1, -1):
            add(n, es, v + d * abs(v) * Fraction(1, 1 << 70))
    for _ in range(40):
        m = rnd.getrandbits(rnd.randint(1, 60)) | 1
        e = rnd.randint(-140, 140)
        add(n, es, Fraction(m) * Fraction(2) ** e * rnd.choice((1, -1)))
    # saturation edges
    maxp = decode(n, es, (1 << (n - 1)) - 1); minp = decode(n, es, 1)
    for x in (maxp, maxp * 2, maxp * Fraction(3, 2), maxp - minp, minp, minp / 2, minp * Fraction(3, 2), minp / 1024):
        add(n, es, x); add(n, es, -x)
json.dump({"generator": "golden/gen_round_vectors.py", "vectors": vec}, open(os.path.join(os.path.dirname(__file__), "round_vectors.json"), "w"))
print(len(vec), "vectors")
