#!/usr/bin/env python3-vt
"""Golden tables for C11: correctly rounded results of the P16E1 / P8E0 elementary functions for
EVERY input, computed with mpmath at >= 200 bits and rounded with the Fraction implementation of
the posit standard (posit_ref.py).  The rounding decision is *proved* per input: both ends of an
enclosure of the true value must round to the same pattern (else the precision is doubled);
inputs whose true result is a dyadic rational (where no enclosure can ever decide) are handled by
exact rational special cases.  Usage: gen_c11.py [fn ...]   (default: all)  -> golden/c11_<fn>.bin
"""
import sys, os, struct
from fractions import Fraction
from multiprocessing import Pool
import mpmath
from mpmath import mp, mpf
sys.path.insert(0, os.path.dirname(os.path.abspath(__file__)))
from posit_ref import decode, round_posit

HERE = os.path.dirname(os.path.abspath(__file__))

def frac_of(x):
    s, man, exp, bc = x._mpf_
    v = Fraction(int(man)) * Fraction(2) ** int(exp)
    return -v if s else v

def is_int(q): return q.denominator == 1

# exact: returns Fraction / 'NaR' / None (irrational -> use enclosure)
def exact(fn, x):
    if fn == 'exp':  return Fraction(1) if x == 0 else None
    if fn == 'exp2': return Fraction(2) ** int(x) if is_int(x) else None
    if fn == 'ln':
        if x <= 0: return 'NaR'
        return Fraction(0) if x == 1 else None
    if fn == 'log2':
        if x <= 0: return 'NaR'
        n, d = x.numerator, x.denominator
        if n & (n - 1) == 0 and d & (d - 1) == 0:
            return Fraction(n.bit_length() - d.bit_length())
        return None
    if fn in ('sin_pi', 'cos_pi', 'tan_pi'):
        x4 = x * 4
        if not is_int(x4): return None
        k = int(x4) % 8           # angle = k * pi/4
        s = [0, None, 1, None, 0, None, -1, None][k]
        c = [1, None, 0, None, -1, None, 0, None][k]
        if fn == 'sin_pi': return None if s is None else Fraction(s)
        if fn == 'cos_pi': return None if c is None else Fraction(c)
        t = [0, 1, 'NaR', -1, 0, 1, 'NaR', -1][k]
        return t if t == 'NaR' else Fraction(t)
    if fn == 'asin_pi':
        if abs(x) > 1: return 'NaR'
        return {Fraction(0): Fraction(0), Fraction(1): Fraction(1, 2), Fraction(-1): Fraction(-1, 2)}.get(x)
    if fn == 'acos_pi':
        if abs(x) > 1: return 'NaR'
        return {Fraction(1): Fraction(0), Fraction(0): Fraction(1, 2), Fraction(-1): Fraction(1)}.get(x)
    if fn == 'atan_pi':
        return {Fraction(0): Fraction(0), Fraction(1): Fraction(1, 4), Fraction(-1): Fraction(-1, 4)}.get(x)
    raise ValueError(fn)

def mp_eval(fn, x):
    X = mpf(x.numerator) / mpf(x.denominator)
    if fn == 'exp':  return mpmath.exp(X)
    if fn == 'exp2': return mpmath.power(2, X)
    if fn == 'ln':   return mpmath.log(X)
    if fn == 'log2': return mpmath.log(X) / mpmath.log(2)
    if fn == 'sin_pi': return mpmath.sinpi(X)
    if fn == 'cos_pi': return mpmath.cospi(X)
    if fn == 'tan_pi': return mpmath.sinpi(X) / mpmath.cospi(X)
    if fn == 'asin_pi': return mpmath.asin(X) / mpmath.pi
    if fn == 'acos_pi': return mpmath.acos(X) / mpmath.pi
    if fn == 'atan_pi': return mpmath.atan(X) / mpmath.pi
    raise ValueError(fn)

def one(fn, n, es, bits):
    x = decode(n, es, bits)
    nar = 1 << (n - 1)
    if x is None: return nar
    e = exact(fn, x)
    if e == 'NaR': return nar
    if e is not None: return round_posit(n, es, e)
    prec = 200
    while prec <= 6400:
        mp.prec = prec
        y = mp_eval(fn, x)
        q = frac_of(y)
        if q == 0:
            raise RuntimeError("unexpected exact zero %s %x" % (fn, bits))
        eps = abs(q) * Fraction(1, 1 << (prec - 12))     # mpmath results are good to a few ulp
        a, b = round_posit(n, es, q - eps), round_posit(n, es, q + eps)
        if a == b: return a
        prec *= 2
    raise RuntimeError("undecided %s %x" % (fn, bits))

def table(job):
    fn, n, es = job
    out = [one(fn, n, es, b) for b in range(1 << n)]
    name = os.path.join(HERE, "c11_%s%s.bin" % ("p8_" if n == 8 else "", fn))
    with open(name, "wb") as f:
        f.write(struct.pack("<%dH" % len(out), *out))
    return name

if __name__ == "__main__":
    fns16 = ['exp', 'exp2', 'ln', 'log2', 'sin_pi', 'cos_pi', 'tan_pi', 'asin_pi', 'acos_pi', 'atan_pi']
    want = sys.argv[1:]
    jobs = [(f, 16, 1) for f in fns16 if not want or f in want] + [(f, 8, 0) for f in ('exp', 'ln') if not want or ('p8_' + f) in want or not want]
    with Pool(min(12, len(jobs))) as p:
        for name in p.imap_unordered(table, jobs):
            print("wrote", name, flush=True)
