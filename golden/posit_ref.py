"""Third implementation of posit-standard rounding: exact Fractions."""
from fractions import Fraction

def decode(n, es, bits):
    mask = (1 << n) - 1
    bits &= mask
    if bits == 0: return Fraction(0)
    if bits == 1 << (n - 1): return None
    neg = bool(bits >> (n - 1))
    p = (-bits) & mask if neg else bits
    s = format(p, '0%db' % n)[1:]          # n-1 body bits as text
    first = s[0]
    run = len(s) - len(s.lstrip(first))
    k = run - 1 if first == '1' else -run
    rest = s[run + 1:]
    e_bits = (rest[:es] + '0' * es)[:es]
    e = int(e_bits, 2) if es else 0
    f = rest[es:]
    frac = Fraction(int(f, 2), 1 << len(f)) if f else Fraction(0)
    v = (1 + frac) * Fraction(2) ** (k * (1 << es) + e)
    return -v if neg else v

def round_posit(n, es, x):
    """x: Fraction (exact). returns n-bit pattern."""
    mask = (1 << n) - 1
    if x == 0: return 0
    a = abs(x)
    maxp = (1 << (n - 1)) - 1
    if a >= decode(n, es, maxp): m = maxp
    elif a <= decode(n, es, 1): m = 1
    else:
        lo, hi = 1, maxp
        while hi - lo > 1:
            mid = (lo + hi) // 2
            d = decode(n, es, mid)
            if d == a: lo = hi = mid; break
            if d < a: lo = mid
            else: hi = mid
        if lo == hi: m = lo
        else:
            v = decode(n + 1, es, (lo << 1) | 1)
            if a < v: m = lo
            elif a > v: m = lo + 1
            else: m = lo if lo % 2 == 0 else lo + 1
    return (-m) & mask if x < 0 else m
