#!/usr/bin/env python3-vt
"""Golden spot-check vectors for C15: correctly rounded P32E2 results of the sixteen elementary
functions at ~1 500 inputs each, computed with mpmath (>= 200 bits, rounding decision proved by an
enclosure; points whose decision cannot be proved — exact ties / exactly representable results — are
skipped).  The Rust check uses them (a) to test its own libm-based reference (the libm interval must
contain the golden value, else 'oracle inconsistent') and (b) as an exact oracle for the crate at
these points.  Deterministic.  Writes golden/c15_ref.json."""
import sys, os, json, random
from fractions import Fraction
from multiprocessing import Pool
import mpmath
from mpmath import mp, mpf
sys.path.insert(0, os.path.dirname(os.path.abspath(__file__)))
from posit_ref import decode, round_posit
HERE = os.path.dirname(os.path.abspath(__file__))
N, ES = 32, 2

def fr(x):
    s, man, exp, bc = x._mpf_
    v = Fraction(int(man)) * Fraction(2) ** int(exp)
    return -v if s else v
def M(q): return mpf(q.numerator) / mpf(q.denominator)

UN = {
 'sin': (lambda x: mpmath.sin(x), lambda x: abs(x) < 393216),
 'cos': (lambda x: mpmath.cos(x), lambda x: abs(x) < 393216),
 'tan': (lambda x: mpmath.tan(x), lambda x: abs(x) < 393216),
 'asin': (lambda x: mpmath.asin(x), lambda x: abs(x) <= 1),
 'acos': (lambda x: mpmath.acos(x), lambda x: abs(x) <= 1),
 'atan': (lambda x: mpmath.atan(x), lambda x: True),
 'ln': (lambda x: mpmath.log(x), lambda x: x > 0),
 'log2': (lambda x: mpmath.log(x) / mpmath.log(2), lambda x: x > 0),
 'exp': (lambda x: mpmath.exp(x), lambda x: abs(x) <= 104),
 'exp2': (lambda x: mpmath.power(2, x), lambda x: -150 <= x < 128),
 'sinh': (lambda x: mpmath.sinh(x), lambda x: abs(x) <= 88),
 'cosh': (lambda x: mpmath.cosh(x), lambda x: abs(x) <= 88),
 'cbrt': (lambda x: mpmath.sign(x) * mpmath.cbrt(abs(x)), lambda x: True),
}
BI = {
 'atan2': (lambda y, x: mpmath.atan2(y, x), lambda y, x: not (y == 0 and x == 0)),
 'hypot': (lambda x, y: mpmath.hypot(x, y), lambda x, y: True),
 'powf': (lambda x, y: mpmath.power(x, y), lambda x, y: Fraction(1, 2) <= x < 5 and Fraction(1, 2) <= y < 5),
}

def decide(f, args):
    prec = 200
    while prec <= 1600:
        mp.prec = prec
        try:
            y = f(*[M(a) for a in args])
        except Exception:
            return None
        if not mpmath.isfinite(y): return None
        q = fr(mpmath.mpf(y.real) if hasattr(y, 'real') else y)
        if q == 0: return None
        eps = abs(q) * Fraction(1, 1 << (prec - 12))
        a, b = round_posit(N, ES, q - eps), round_posit(N, ES, q + eps)
        if a == b: return a
        prec *= 2
    return None   # exact tie or exactly representable: not decidable by enclosure, skipped

def unary_inputs(rnd):
    pts = set()
    for i in range(900):
        pts.add((i * 0x47AE147 + 0x1234567) & 0xffffffff)
    for e in range(-40, 41):
        b = round_posit(N, ES, Fraction(2) ** e)
        for d in (-1, 0, 1): pts.add((b + d) & 0xffffffff); pts.add((-(b + d)) & 0xffffffff)
    for k in list(range(1, 60)) + [rnd.randrange(1, 250000) for _ in range(150)]:
        mp.prec = 200
        b = round_posit(N, ES, fr(mpmath.pi * k / 2))
        for d in (-1, 0, 1): pts.add((b + d) & 0xffffffff); pts.add((-(b + d)) & 0xffffffff)
    for v in (1, 104, 88, 128, 150, Fraction(1, 2)):
        b = round_posit(N, ES, Fraction(v))
        for d in range(-3, 4): pts.add((b + d) & 0xffffffff); pts.add((-(b + d)) & 0xffffffff)
    return sorted(pts)

def job(t):
    kind, name, args = t
    vals = [decode(N, ES, a) for a in args]
    if any(v is None for v in vals): return None
    f, dom = (UN if kind == 1 else BI)[name]
    if not dom(*vals): return None
    w = decide(f, vals)
    if w is None: return None
    return [name] + list(args) + [w]

if __name__ == "__main__":
    rnd = random.Random(15)
    tasks = []
    ui = unary_inputs(rnd)
    for name in UN:
        tasks += [(1, name, (a,)) for a in ui]
    for name in BI:
        for _ in range(1500):
            if name == 'powf':
                a, b = rnd.randrange(0x38000000, 0x52000000), rnd.randrange(0x38000000, 0x52000000)
            else:
                a, b = rnd.getrandbits(32), rnd.getrandbits(32)
                if rnd.random() < 0.3: b = (a + rnd.randrange(-3, 4)) & 0xffffffff
            tasks.append((2, name, (a, b)))
    with Pool(14) as p:
        res = [r for r in p.imap(job, tasks, chunksize=64) if r is not None]
    json.dump({"generator": "golden/gen_c15.py", "points": res}, open(os.path.join(HERE, "c15_ref.json"), "w"))
    print(len(res), "points of", len(tasks))
