//! C04 — quire accumulation is exact, rounds once, NaR sticky, order independent (DESIGN.md section 6, C04).
use super::quire::*;
use super::util::*;
use crate::core::*;
use crate::gen;
use crate::pt::{PT, QT};
use crate::refmodel::*;
use proptest::prelude::*;
use softposit::{QuireDot, P16E1, P32E2, P8E0, Q16E1, Q32E2, Q8E0};

const FL: Flags = Flags { c12: false };

fn dot_section<P: PT + nalgebra::Scalar + softposit::AssociatedQuire<P>>(rep: &mut Report, cases: u64) {
    let n = P::N;
    rep.generated(
        &format!("{} linalg::quire_dot on 1..4 x 1..4 x 1..4 matrices", P::NAME),
        cases,
        move || (1usize..=4, 1usize..=4, 1usize..=4, proptest::collection::vec(gen::real_bits(n), 32)),
        |(r, k, c, data), l| {
            let (r, k, c) = (*r, *k, *c);
            let a = nalgebra::DMatrix::from_fn(r, k, |i, j| P::fb(data[i * 4 + j]));
            let b = nalgebra::DMatrix::from_fn(k, c, |i, j| P::fb(data[16 + i * 4 + j]));
            let args: Vec<u64> = [r as u64, k as u64, c as u64].iter().copied().chain(data.iter().copied()).collect();
            let got = match guard(|| a.quire_dot(&b)) {
                Ok(m) => m,
                Err(e) => return Err(Viol::panic(format!("{}.quire_dot", P::NAME), &args, "no panic".into(), e)),
            };
            for i in 0..r {
                for j in 0..c {
                    l.eval();
                    let mut s = Dy::ZERO;
                    for t in 0..k {
                        s = s.add(&dec::<P>(data[i * 4 + t]).unwrap().mul(&dec::<P>(data[16 + t * 4 + j]).unwrap()));
                    }
                    let want = rnd::<P, _>(&s);
                    let g = got[(i, j)].tb();
                    if g != want {
                        return Err(Viol::wrong(format!("{}.quire_dot[{},{}]", P::NAME, i, j), &args, want, g));
                    }
                }
            }
            if k >= 2 {
                l.nontrivial(hash_args(n as u64, &args));
            }
            Ok(())
        },
    );
}

fn hist<Q: QT>(rep: &mut Report, cases: u64) {
    rep.generated(&format!("{} generated histories (<= 24 steps, all operand spellings, NaR injection 10%, clear)", Q::NAME), cases, || history::<Q::P>(false, 24), |(steps, perm), l| run_history::<Q>(steps, *perm, &FL, l));
}

pub fn run(rep: &mut Report) {
    let tier = rep.cfg.tier;
    rep.rule = "call histories (vec of 0..=24 steps over {+= / -= of a product in tuple, nested-tuple, array and method spellings, += / -= of a single posit, Quire trait methods, clear}; operands from a 4-element pool, their negations and fresh structured patterns; NaR injected into 10% of histories) applied to the real quire and to an exact dyadic model; after EVERY step: to_bits equals the two's-complement fixed-point image of the exact sum, is_zero / is_nar exact, to_posit (and From<&Q>) equals the sum rounded once; NaR sticky until clear; finally the same steps in a permuted order must give the same bits. Plus complete single-product histories (Q8 all 2^16, Q16 strided) and linalg::quire_dot. Non-trivial = >= 3 terms of mixed sign, or final |sum| < 2^-40 of the largest term / exact cancellation, or sum spanning limb boundaries, or NaR injected; distinct histories."
        .into();
    rep.assumptions = std_assumptions();
    super::run_corpus(rep, replay);
    let (h8, h16, h32) = match tier {
        Tier::Quick => (200_000, 300_000, 500_000),
        Tier::Thorough => (1_500_000, 1_500_000, 1_500_000),
    };
    fn ties<Q: QT>(rep: &mut Report, cases: u64) {
        rep.generated(&format!("{} tie-directed histories (two posits summing to a rounding threshold, +- a product far below the ulp, short tail)", Q::NAME), cases, || tie_history::<Q::P>(), |(steps, perm), l| {
            let r = run_history::<Q>(steps, *perm, &FL, l);
            // label what the final rounding looked like
            r
        });
    }
    ties::<Q8E0>(rep, h8 / 2);
    ties::<Q16E1>(rep, h16);
    ties::<Q32E2>(rep, h32);
    if tier == Tier::Thorough {
        // long histories: up to 96 steps (Q8 may leave its range: such steps are dropped by the interpreter and counted)
        rep.generated("Q8E0 long histories (<= 96 steps)", 100_000, || history::<P8E0>(false, 96), |(steps, perm), l| run_history::<Q8E0>(steps, *perm, &FL, l));
        rep.generated("Q16E1 long histories (<= 96 steps)", 100_000, || history::<P16E1>(false, 96), |(steps, perm), l| run_history::<Q16E1>(steps, *perm, &FL, l));
        rep.generated("Q32E2 long histories (<= 96 steps)", 100_000, || history::<P32E2>(false, 96), |(steps, perm), l| run_history::<Q32E2>(steps, *perm, &FL, l));
    }
    hist::<Q8E0>(rep, h8);
    hist::<Q16E1>(rep, h16);
    hist::<Q32E2>(rep, h32);
    // complete single- and two-term histories
    rep.exhaustive("Q8E0 every single product a*b (2^16) then its cancellation by -= (a,b)", 1 << 16, |i, l| {
        let (a, b) = (i >> 8, i & 0xff);
        run_history::<Q8E0>(&[Step { code: 0, p: [a, b, 0, 0] }, Step { code: 1, p: [b, a, 0, 0] }], 0, &FL, l)
    });
    let stride = tier.pick(4099, 257);
    let off = rep.cfg.seed % stride;
    rep.lattice(&format!("Q16E1 single products a*b, every {}th of the 2^32 pairs, then cancellation", stride), (1u64 << 32) / stride, move |i, l| {
        let v = i * stride + off;
        let (a, b) = (v >> 16, v & 0xffff);
        run_history::<Q16E1>(&[Step { code: 4, p: [a, b, 0, 0] }, Step { code: 5, p: [b, a, 0, 0] }], 0, &FL, l)
    });
    // Q32: products of extreme-regime operands: every limb position of the 512-bit accumulator
    let lat = super::c01::extreme_lattice(32, tier.pick(26, 23) as u32);
    let k = lat.len() as u64;
    rep.lattice(&format!("Q32E2 single products over {} extreme-regime patterns squared, + 1.0, then cancellation", k), k * k, move |i, l| {
        let (a, b) = (lat[(i / k) as usize], lat[(i % k) as usize]);
        run_history::<Q32E2>(&[Step { code: 0, p: [a, b, 0, 0] }, Step { code: 2, p: [0x4000_0000, 0, 0, 0] }, Step { code: 5, p: [b, a, 0, 0] }], 0, &FL, l)
    });
    let d = tier.pick(20_000, 400_000);
    dot_section::<P8E0>(rep, d);
    dot_section::<P16E1>(rep, d);
    dot_section::<P32E2>(rep, d);
}

pub fn replay(op: &str, args: &[u64]) -> Result<(), Viol> {
    let mut l = Local::new(false);
    if op.contains("quire_dot") {
        return Ok(()); // matrices are replayed through the generated section only
    }
    let (steps, perm) = decode_history(args);
    let ty = op.split('.').next().unwrap_or("");
    match ty {
        "Q8E0" => run_history::<Q8E0>(&steps, perm, &FL, &mut l),
        "Q16E1" => run_history::<Q16E1>(&steps, perm, &FL, &mut l),
        _ => run_history::<Q32E2>(&steps, perm, &FL, &mut l),
    }
}
