//! C15 — P32E2 elementary functions stay within their stated ULP bound (DESIGN.md section 6, C15).
//! Reference: f64 libm value y widened to [y(1-4eps), y(1+4eps)], both ends rounded by the posit
//! rule; the error of the crate's answer is the MINIMUM encoding distance to that set, so reference
//! error can hide but never create a violation.
use super::util::*;
use crate::core::*;
use crate::fastref as fr;
use crate::gen;
use proptest::prelude::*;
use serde_json::json;
use softposit::P32E2;

pub struct F1 {
    pub name: &'static str,
    pub bound: i64,
    pub call: fn(P32E2) -> P32E2,
    pub reff: fn(f64) -> f64,
    /// is the real value x inside the function's supported domain (where the bound is claimed)?
    pub dom: fn(f64) -> bool,
    /// real arguments outside the real domain of the function: must give NaR
    pub undefined: fn(f64) -> bool,
}
fn never(_: f64) -> bool {
    false
}
pub const TRIG_MAX: f64 = 393216.0;
pub static UNARY: [F1; 13] = [
    F1 { name: "sin", bound: 2, call: |p| p.sin(), reff: f64::sin, dom: |x| x.abs() < TRIG_MAX, undefined: never },
    F1 { name: "cos", bound: 2, call: |p| p.cos(), reff: f64::cos, dom: |x| x.abs() < TRIG_MAX, undefined: never },
    F1 { name: "tan", bound: 3, call: |p| p.tan(), reff: f64::tan, dom: |x| x.abs() < TRIG_MAX, undefined: never },
    F1 { name: "asin", bound: 3, call: |p| p.asin(), reff: f64::asin, dom: |x| x.abs() <= 1.0, undefined: |x| x.abs() > 1.0 },
    F1 { name: "acos", bound: 2, call: |p| p.acos(), reff: f64::acos, dom: |x| x.abs() <= 1.0, undefined: |x| x.abs() > 1.0 },
    F1 { name: "atan", bound: 3, call: |p| p.atan(), reff: f64::atan, dom: |_| true, undefined: never },
    F1 { name: "ln", bound: 2, call: |p| p.ln(), reff: f64::ln, dom: |x| x > 0.0, undefined: |x| x <= 0.0 },
    F1 { name: "log2", bound: 3, call: |p| p.log2(), reff: f64::log2, dom: |x| x > 0.0, undefined: |x| x <= 0.0 },
    F1 { name: "exp", bound: 1, call: |p| p.exp(), reff: f64::exp, dom: |x| x.abs() <= 104.0, undefined: never },
    F1 { name: "exp2", bound: 1, call: |p| p.exp2(), reff: f64::exp2, dom: |x| (-150.0..128.0).contains(&x), undefined: never },
    F1 { name: "sinh", bound: 4, call: |p| p.sinh(), reff: f64::sinh, dom: |x| x.abs() <= 88.0, undefined: never },
    F1 { name: "cosh", bound: 2, call: |p| p.cosh(), reff: f64::cosh, dom: |x| x.abs() <= 88.0, undefined: never },
    F1 { name: "cbrt", bound: 4, call: |p| p.cbrt(), reff: f64::cbrt, dom: |_| true, undefined: never },
];
pub struct F2 {
    pub name: &'static str,
    pub bound: i64,
    pub call: fn(P32E2, P32E2) -> P32E2,
    pub reff: fn(f64, f64) -> f64,
    pub dom: fn(f64, f64) -> bool,
}
pub static BINARY: [F2; 3] = [
    F2 { name: "atan2", bound: 3, call: |a, b| a.atan2(b), reff: f64::atan2, dom: |y, x| !(y == 0.0 && x == 0.0) },
    F2 { name: "hypot", bound: 4, call: |a, b| a.hypot(b), reff: f64::hypot, dom: |_, _| true },
    // the crate states (and samples) its 5-ulp bound for x, y in [0.5, 5)
    F2 { name: "powf", bound: 5, call: |a, b| a.powf(b), reff: f64::powf, dom: |x, y| (0.5..5.0).contains(&x) && (0.5..5.0).contains(&y) },
];

#[inline]
fn val(a: u64) -> Option<f64> {
    // exact f64 value of a P32 pattern (28 significant bits, |scale| <= 120)
    let x = fr::decode(32, 2, a)?;
    if x.sig == 0 {
        return Some(0.0);
    }
    let x = x.norm();
    let m = (x.sig >> 64) as u64; // top 64 bits; low bits are zero for a posit
    let v = (m as f64) * 2f64.powi(x.exp + 64);
    Some(if x.neg { -v } else { v })
}
#[inline]
fn enc(y: f64) -> i64 {
    match fr::from_f64(y) {
        Some(x) => fr::encode(32, 2, x) as u32 as i32 as i64,
        None => i64::MIN,
    }
}
/// minimum encoding distance of `got` to the correctly rounded images of [y(1-4e), y(1+4e)]
#[inline]
fn distance(y: f64, got: u64) -> i64 {
    let g = got as u32 as i32 as i64;
    if got == 0x8000_0000 {
        return i64::MAX; // NaR for a real in-domain argument
    }
    let eps = 4.0 * f64::EPSILON;
    let (a, b) = (enc(y * (1.0 - eps)), enc(y * (1.0 + eps)));
    let (lo, hi) = if a <= b { (a, b) } else { (b, a) };
    if g < lo {
        lo - g
    } else if g > hi {
        g - hi
    } else {
        0
    }
}
fn err_label(d: i64) -> &'static str {
    match d {
        0 => "err0",
        1 => "err1",
        2 => "err2",
        3 => "err3",
        4 => "err4",
        5 => "err5",
        _ => "err>5",
    }
}

pub fn unary(fi: usize, a: u64, l: &mut Local) -> Result<(), Viol> {
    let f = &UNARY[fi];
    let p = P32E2::from_bits(a as u32);
    let op = || format!("P32E2.{}", f.name);
    let x = match val(a) {
        None => {
            // NaR in -> NaR out
            l.eval();
            l.label("NaR_input");
            return expect_bits(&op(), &[a], 0x8000_0000, guard(|| (f.call)(p).to_bits() as u64));
        }
        Some(x) => x,
    };
    if (f.undefined)(x) {
        l.eval();
        l.label("outside_real_domain(NaR expected)");
        return expect_bits(&op(), &[a], 0x8000_0000, guard(|| (f.call)(p).to_bits() as u64));
    }
    if !(f.dom)(x) {
        return Ok(()); // outside the supported range: totality is C16's business
    }
    l.eval();
    let y = (f.reff)(x);
    let got = match guard(|| (f.call)(p).to_bits() as u64) {
        Ok(g) => g,
        Err(m) => return Err(Viol::panic(op(), &[a], format!("within {} encodings of round({:e})", f.bound, y), m)),
    };
    let d = distance(y, got);
    l.label(err_label(d));
    if enc(y) as u64 != 0 || x != 0.0 {
        l.nontrivial(hash_args(fi as u64, &[a]));
    }
    if d > f.bound {
        return Err(Viol::wrong_s(op(), &[a], format!("within {} encodings of {:#x} (round({:e}))", f.bound, enc(y) as u32, y), if d == i64::MAX { "NaR".to_string() } else { format!("{:#x} (error {})", got, d) }));
    }
    if d == f.bound {
        l.sample(|| json!({"fn": f.name, "x": hex(a), "value": x, "got": hex(got), "error": d, "note": "reaches the bound exactly"}));
    }
    Ok(())
}

pub fn binary(fi: usize, a: u64, b: u64, l: &mut Local) -> Result<(), Viol> {
    let f = &BINARY[fi];
    let (pa, pb) = (P32E2::from_bits(a as u32), P32E2::from_bits(b as u32));
    let op = || format!("P32E2.{}", f.name);
    let (x, y) = match (val(a), val(b)) {
        (Some(x), Some(y)) => (x, y),
        _ => {
            l.eval();
            l.label("NaR_input");
            // powf(x, 0) = 1 and powf(1, y) = 1 are defined before the NaR test by the crate (IEEE pow
            // convention); the property's NaR clause is asserted for the remaining combinations
            if f.name == "powf" && (b == 0 || a == 0x4000_0000) {
                return Ok(());
            }
            return expect_bits(&op(), &[a, b], 0x8000_0000, guard(|| (f.call)(pa, pb).to_bits() as u64));
        }
    };
    if !(f.dom)(x, y) {
        // outside the range of the stated bound only the qualitative clauses are judged for powf:
        // a real, comfortably representable true value must come back real, non-zero and with the right sign
        if f.name == "powf" && x < 0.0 && y.fract() != 0.0 {
            // a negative base with a non-integer exponent is outside the real domain: NaR (the posit's value
            // is exact in f64, so integrality is decided exactly)
            l.eval();
            l.label("powf_negative_base_non_integer_exponent(NaR)");
            return expect_bits(&format!("{}.domain", op()), &[a, b], 0x8000_0000, guard(|| (f.call)(pa, pb).to_bits() as u64));
        }
        if f.name == "powf" && x != 0.0 && y != 0.0 {
            let r = (f.reff)(x, y);
            if r.is_finite() && r != 0.0 && r.abs() > 1e-30 && r.abs() < 1e30 && y.abs() < 1e9 && x.abs() > 1e-30 && x.abs() < 1e30 {
                l.eval();
                l.label("powf_outside_bound_domain(sign/NaR class only)");
                let got = match guard(|| (f.call)(pa, pb).to_bits() as u64) {
                    Ok(g) => g,
                    Err(m) => return Err(Viol::panic(op(), &[a, b], format!("a real value with the sign of {:e}", r), m)),
                };
                let gneg = got & 0x8000_0000 != 0;
                if got == 0x8000_0000 || got == 0 || gneg != (r < 0.0) {
                    return Err(Viol::wrong_s(format!("{}.sign", op()), &[a, b], format!("a real non-zero value with the sign of {:e}", r), hex(got)));
                }
            } else if x > 0.0 || (x < 0.0 && y.abs() >= 268_435_456.0) {
                // (a negative base with |y| >= 2^28: every such P32E2 exponent is an even integer, so x^y = |x|^y)
                // the true value over- or underflows (or the exponent is astronomically large): x^y is still a
                // positive real for x > 0, so the answer must at least be a non-negative real — never NaR,
                // never negative (magnitude and the crate's flush-to-zero are not judged out here)
                l.eval();
                l.label(if x > 0.0 { "powf_positive_base_far_outside(non-negative real only)" } else { "powf_negative_base_huge_even_exponent(non-negative real only)" });
                let got = match guard(|| (f.call)(pa, pb).to_bits() as u64) {
                    Ok(g) => g,
                    Err(m) => return Err(Viol::panic(op(), &[a, b], "a non-negative real (positive base or even integer exponent)".into(), m)),
                };
                if got & 0x8000_0000 != 0 {
                    return Err(Viol::wrong_s(format!("{}.sign", op()), &[a, b], (if x > 0.0 { "a non-negative real (x > 0, so x^y > 0)" } else { "a non-negative real (y is an even integer, so x^y = |x|^y)" }).to_string(), hex(got)));
                }
            }
        }
        return Ok(());
    }
    l.eval();
    let r = (f.reff)(x, y);
    let got = match guard(|| (f.call)(pa, pb).to_bits() as u64) {
        Ok(g) => g,
        Err(m) => return Err(Viol::panic(op(), &[a, b], format!("within {} encodings of round({:e})", f.bound, r), m)),
    };
    let d = distance(r, got);
    l.label(err_label(d));
    l.nontrivial(hash_args(100 + fi as u64, &[a, b]));
    if d > f.bound {
        return Err(Viol::wrong_s(op(), &[a, b], format!("within {} encodings of {:#x} (round({:e}))", f.bound, enc(r) as u32, r), if d == i64::MAX { "NaR".to_string() } else { format!("{:#x} (error {})", got, d) }));
    }
    if d == f.bound {
        l.sample(|| json!({"fn": f.name, "a": hex(a), "b": hex(b), "got": hex(got), "error": d, "note": "reaches the bound exactly"}));
    }
    Ok(())
}

/// arguments next to the places where the kernels change behaviour
fn boundary_inputs() -> BoxedStrategy<u64> {
    prop_oneof![
        // within +-64 encodings of multiples of pi/2 up to the trig range limit
        (0i64..250_400, -64i64..=64, any::<bool>()).prop_map(|(k, d, neg)| {
            let v = (k as f64) * std::f64::consts::FRAC_PI_2;
            let b = (enc(v) + d) as u64 & 0xffff_ffff;
            if neg { b.wrapping_neg() & 0xffff_ffff } else { b }
        }),
        // powers of two and their neighbours
        (-120i32..=120, -4i64..=4, any::<bool>()).prop_map(|(e, d, neg)| {
            let b = (enc(2f64.powi(e)) + d) as u64 & 0xffff_ffff;
            if neg { b.wrapping_neg() & 0xffff_ffff } else { b }
        }),
        // range ends of the individual functions
        (proptest::sample::select(vec![1.0f64, 0.5, 104.0, 88.0, 128.0, 150.0, 393216.0, 0.0, 709.0, 3.25, 5.0]), -64i64..=64, any::<bool>()).prop_map(|(v, d, neg)| {
            let b = (enc(v) + d) as u64 & 0xffff_ffff;
            if neg { b.wrapping_neg() & 0xffff_ffff } else { b }
        }),
        gen::bits(32),
    ]
    .boxed()
}

fn pair_inputs() -> BoxedStrategy<(u64, u64)> {
    prop_oneof![
        3 => gen::pair(32, 2),
        // both in [0.5, 5): the powf domain, dense
        3 => (0x3800_0000u64..0x5200_0000, 0x3800_0000u64..0x5200_0000),
        1 => (boundary_inputs(), boundary_inputs()),
        // ratio near 1 / extreme ratio / axis aligned
        2 => (gen::real_bits(32), -3i64..=3).prop_map(|(a, d)| (a, (a as i64 + d) as u64 & 0xffff_ffff)),
        1 => (gen::real_bits(32), any::<bool>()).prop_map(|(a, s)| if s { (a, 0) } else { (0, a) }),
    ]
    .boxed()
}

pub fn run(rep: &mut Report) {
    let tier = rep.cfg.tier;
    rep.rule = "P32E2 inputs of sin, cos, tan (|x| < 393216), asin, acos (|x| <= 1), atan, cbrt (all reals), ln, log2 (x > 0), exp (|x| <= 104), exp2 (-150 <= x < 128), sinh, cosh (|x| <= 88) and pairs for atan2 (not (0,0)), hypot, powf (x, y in [0.5, 5), the range for which the crate states its bound); violation iff the minimum encoding distance between the crate's answer and the posit roundings of the widened libm interval exceeds the stated bound (1: exp, exp2; 2: sin, cos, acos, ln, cosh; 3: tan, asin, atan, atan2, log2; 4: cbrt, hypot, sinh; 5: powf), or NaR is returned for a real in-domain argument, or NaR input / argument outside the real domain (ln/log2 x <= 0, asin/acos |x| > 1) does not give NaR, or a panic. Inputs: per unary function every 64th of the 2^32 patterns in quick (offset = seed mod 64) and ALL 2^32 patterns in thorough, proptest boundary inputs (neighbours of multiples of pi/2, powers of two, range ends), the posits next to every exp-type reduction boundary (k + 1/2) ln 2, proptest pairs, and powf pairs whose y ln x sits on such a boundary. The per-function ulp-error histogram is in the section labels. Non-trivial = in-domain real argument; distinct (function, input)."
        .into();
    rep.assumptions = vec![
        "glibc libm results for these functions are within 4 epsilon relative of the true value (documented <= 2 ulp); a defect smaller than that slack is invisible".into(),
        "correct rounding is NOT claimed for these functions, only the crate's stated bound".into(),
    ];
    super::run_corpus(rep, replay);
    golden_section(rep);
    // quick: every 64th pattern (offset from the seed); thorough: ALL 2^32 patterns of every unary function
    // (≈ 2 min per function) — a defect confined to a handful of inputs (cf. seeded C06-r2-m1: four) is
    // out of reach of any stride, and the complete scan re-derives the K1 list on every run
    let stride = tier.pick(64, 1);
    let off = rep.cfg.seed % stride;
    for fi in 0..UNARY.len() {
        if stride == 1 {
            rep.exhaustive(&format!("{}: all 2^32 patterns", UNARY[fi].name), 1u64 << 32, move |i, l| unary(fi, i, l));
        } else {
            rep.lattice(&format!("{}: every {}th of the 2^32 patterns (offset {})", UNARY[fi].name, stride, off), (1u64 << 32) / stride, move |i, l| unary(fi, i * stride + off, l));
        }
        rep.generated(&format!("{}: boundary inputs", UNARY[fi].name), tier.pick(60_000, 1_500_000), boundary_inputs, move |&a, l| unary(fi, a, l));
    }
    // the posits nearest to every multiple of pi/2 inside the trig range (offsets -1, 0, +1, both signs):
    // where the three-part reduction constant matters most
    for fi in 0..3 {
        rep.lattice(&format!("{}: posits nearest to k*pi/2 for every k < 250 331, offsets -1..=1, both signs", UNARY[fi].name), 250_331 * 6, move |i, l| {
            let (k, j) = (i / 6, i % 6);
            let v = (k as f64) * std::f64::consts::FRAC_PI_2;
            let b = (enc(v) + (j % 3) as i64 - 1) as u64 & 0xffff_ffff;
            unary(fi, if j >= 3 { b.wrapping_neg() & 0xffff_ffff } else { b }, l)
        });
    }
    // powf with a negative base and integer exponents (sign / NaR class; outside the accuracy domain)
    rep.generated("powf: negative base; integer, half-integer and next-to-integer exponents up to 2^24 (sign / NaR class)", tier.pick(300_000, 3_000_000), || (gen::real_bits(32), 0u64..(1 << 25), any::<bool>(), 0u8..6), |&(a, m, neg, kind), l| {
        let base = if kind == 3 { (a | 0x8000_0000) & 0xffff_ffff } else { 0xB800_0000 + (a % 0x1000_0000) }; // mostly bases in (-2, -0.5]
        let yv = match kind { 0 => (m >> 1) as f64, 1 => (m | 1) as f64, 2 | 4 => ((m >> 12) | 1) as f64, 5 => ((m >> 6) + 1) as f64, _ => m as f64 / 2.0 };
        let mut yb = enc(if neg { -yv } else { yv }) as u64 & 0xffff_ffff;
        if kind >= 4 {
            // one or two encodings beside an integer: not an integer, but one after rounding to 24 bits
            // (seeded C15-r5-m1 ran the integrality test on f32::from(y))
            yb = (yb as i64 + [1, -1, 2, -2][(m & 3) as usize]) as u64 & 0xffff_ffff;
        }
        binary(2, base, yb, l)
    });
    // exp-type argument reduction: q = round(d / ln 2) switches at d = (k + 1/2) ln 2.  Unary: the posits
    // nearest to every such boundary inside the range, offsets -3..=3 (exp, sinh, cosh in d; exp2 at k + 1/2).
    for (fi, scale) in [(8usize, std::f64::consts::LN_2), (9, 1.0), (10, std::f64::consts::LN_2), (11, std::f64::consts::LN_2)] {
        rep.lattice(&format!("{}: posits nearest to the reduction boundaries (k + 1/2){} for |k| <= 160, offsets -3..=3", UNARY[fi].name, if scale == 1.0 { "" } else { " ln 2" }), 321 * 7, move |i, l| {
            let (k, j) = ((i / 7) as i64 - 160, (i % 7) as i64 - 3);
            let b = (enc((k as f64 + 0.5) * scale) + j) as u64 & 0xffff_ffff;
            unary(fi, b, l)
        });
    }
    // powf(x, y) = exp(y ln x): pairs inside the judged domain whose y ln x sits on such a boundary
    // (x^y = 2^(k+1/2)), y swept +-4 encodings.  Seeded C15-r3-m2 (q computed two ways in the pow-only exp
    // kernel) is off by a factor of two on three values of y ln x only: 0 failures in 10^9 random pairs.
    rep.generated("powf: pairs in [0.5,5)^2 with y ln x on a reduction boundary (k + 1/2) ln 2, k = -6..=11, y offsets -4..=4", tier.pick(400_000, 6_000_000), || (0u64..(1 << 40), -6i32..=11, -4i64..=4), |&(u, k, off), l| {
        let t = (k as f64 + 0.5) * std::f64::consts::LN_2;
        let y0 = 0.5 + 4.5 * (u as f64 / (1u64 << 40) as f64);
        let xb = enc((t / y0).exp()) as u64 & 0xffff_ffff;
        let xv = val(xb).unwrap_or(1.0);
        if !(0.5..5.0).contains(&xv) || (xv - 1.0).abs() < 1e-6 {
            l.label("boundary_pair_outside_domain_skipped");
            return Ok(());
        }
        let y = t / xv.ln();
        if !(0.5..5.0).contains(&y) {
            l.label("boundary_pair_outside_domain_skipped");
            return Ok(());
        }
        l.label("boundary_pair_in_domain");
        binary(2, xb, (enc(y) + off) as u64 & 0xffff_ffff, l)
    });
    // powf with a negative base and a huge exponent: every P32E2 value of magnitude >= 2^28 is an even
    // integer, so the answer is |x|^y — a non-negative real.  Seeded C15-r4-m1/m2 moved the integrality /
    // parity tests onto saturating i64 conversions and fail exactly at y = 2^63 resp. for |y| > 2^63.
    {
        let bases: Vec<u64> = {
            let mut v = vec![0xC000_0000u64, 0xB800_0000, 0xC800_0000, 0xB000_0000, 0x8000_0001, 0xFFFF_FFFF, 0xBFFF_FFFF, 0xC000_0001];
            for i in 0..56u64 {
                v.push(0x8000_0001 + (splitmix(i ^ 0xC15) % 0x7FFF_FFFE));
            }
            v
        };
        let nb = bases.len() as u64;
        rep.lattice("powf: negative bases x exponents next to +-2^k, k = 28..=119 (offsets -2..=2 encodings): sign / NaR class", nb * 92 * 5 * 2, move |i, l| {
            let (bi, r) = (i % nb, i / nb);
            let (k, r) = (28 + (r % 92) as i32, r / 92);
            let (off, neg) = ((r % 5) as i64 - 2, r / 5 == 1);
            let yb = (enc(2f64.powi(k)) + off) as u64 & 0xffff_ffff;
            binary(2, bases[bi as usize], if neg { yb.wrapping_neg() & 0xffff_ffff } else { yb }, l)
        });
    }
    for fi in 0..BINARY.len() {
        rep.generated(&format!("{}: generated pairs", BINARY[fi].name), tier.pick(3_000_000, 40_000_000), pair_inputs, move |&(a, b), l| binary(fi, a, b, l));
    }
}

/// committed mpmath vectors (golden/gen_c15.py): (a) the libm-based reference must contain the exactly
/// rounded value — otherwise the run is "oracle inconsistent" (exit 2); (b) the crate is judged
/// against the exact value at these points
fn golden_section(rep: &mut Report) {
    let path = format!("{}/golden/c15_ref.json", verif_dir());
    let pts: Vec<(String, Vec<u64>, u64)> = match std::fs::read_to_string(&path).ok().and_then(|t| serde_json::from_str::<serde_json::Value>(&t).ok()) {
        Some(v) => v["points"].as_array().map(|a| a.iter().filter_map(|p| {
            let p = p.as_array()?;
            let name = p[0].as_str()?.to_string();
            let nums: Vec<u64> = p[1..].iter().filter_map(|x| x.as_u64()).collect();
            let (args, want) = nums.split_at(nums.len() - 1);
            Some((name, args.to_vec(), want[0]))
        }).collect()).unwrap_or_default(),
        None => vec![],
    };
    if pts.is_empty() {
        rep.inconclusive.push(format!("{} missing or unreadable", path));
        return;
    }
    let bad_oracle = std::sync::Mutex::new(Vec::<String>::new());
    rep.fixed("golden mpmath vectors: libm reference contains the exact rounding; crate within its bound of the exact rounding", &pts, |(name, args, want), l| {
        l.eval();
        let (bound, y, got): (i64, f64, Result<u64, String>) = if let Some(fi) = UNARY.iter().position(|f| f.name == name) {
            let f = &UNARY[fi];
            let x = val(args[0]).unwrap_or(0.0);
            (f.bound, (f.reff)(x), guard(|| (f.call)(P32E2::from_bits(args[0] as u32)).to_bits() as u64))
        } else {
            let fi = BINARY.iter().position(|f| f.name == name).unwrap_or(0);
            let f = &BINARY[fi];
            let (x, z) = (val(args[0]).unwrap_or(0.0), val(args[1]).unwrap_or(0.0));
            (f.bound, (f.reff)(x, z), guard(|| (f.call)(P32E2::from_bits(args[0] as u32), P32E2::from_bits(args[1] as u32)).to_bits() as u64))
        };
        if distance(y, *want) != 0 {
            bad_oracle.lock().unwrap().push(format!("{} {:x?}: mpmath {:#x}, libm {:e}", name, args, want, y));
        }
        l.nontrivial(hash_args(7777, args));
        let op = format!("P32E2.{}", name);
        match got {
            Err(m) => Err(Viol::panic(op, args, format!("within {} encodings of {:#x}", bound, want), m)),
            Ok(g) => {
                let d = if g == 0x8000_0000 { i64::MAX } else { ((g as u32 as i32 as i64) - (*want as u32 as i32 as i64)).abs() };
                l.label(err_label(d));
                if d > bound {
                    Err(Viol::wrong_s(op, args, format!("within {} encodings of {:#x} (exact rounding, mpmath)", bound, want), if d == i64::MAX { "NaR".into() } else { format!("{:#x} (error {})", g, d) }))
                } else {
                    Ok(())
                }
            }
        }
    });
    let bad = bad_oracle.into_inner().unwrap();
    if !bad.is_empty() {
        rep.inconclusive.push(format!("oracle inconsistent: libm-based reference excludes the exactly rounded value at {} golden points, e.g. {}", bad.len(), bad[0]));
    }
}

pub fn replay(op: &str, args: &[u64]) -> Result<(), Viol> {
    let mut l = Local::new(false);
    let (_, name) = split_op(op);
    if let Some(fi) = UNARY.iter().position(|f| f.name == name) {
        return unary(fi, arg(args, 0), &mut l);
    }
    if let Some(fi) = BINARY.iter().position(|f| f.name == name) {
        return binary(fi, arg(args, 0), arg(args, 1), &mut l);
    }
    Ok(())
}

/// tooling: complete 2^32 scan of one unary function, listing every excess (used to build the
/// exhaustive witness list of a known accuracy finding)
pub fn scan(name: &str) -> i32 {
    use rayon::prelude::*;
    let fi = match UNARY.iter().position(|f| f.name == name) {
        Some(i) => i,
        None => return 2,
    };
    let mut all: Vec<(u64, String)> = (0u64..4096)
        .into_par_iter()
        .flat_map(|c| {
            let mut l = Local::new(false);
            let mut out = vec![];
            for a in (c << 20)..((c + 1) << 20) {
                if let Err(v) = unary(fi, a, &mut l) {
                    out.push((a, v.got));
                }
            }
            out
        })
        .collect();
    all.sort();
    for (a, g) in &all {
        println!("{:#010x} {}", a, g);
    }
    println!("# {} inputs of {} exceed the bound", all.len(), name);
    0
}
