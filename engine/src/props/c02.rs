//! C02 — float -> posit conversion correctly rounded for every float (DESIGN.md section 6, C02).
use super::util::*;
use crate::core::*;
use crate::fastref as fr;
use crate::gen;
use crate::pt::PT;
use crate::refmodel::*;
use serde_json::json;
use softposit::{P16E1, P32E2, P8E0};

/// what a `None` from a num_traits spelling is reported as (never a valid expected value)
const NONE_BITS: u64 = 0xbad0_0000_0000;

pub fn from64<P: PT>(bits: u64, l: &mut Local) -> Result<(), Viol> {
    let f = f64::from_bits(bits);
    let want = match Dy::from_f64(f) {
        None => nar::<P>(),
        Some(x) => {
            let w = rnd::<P, _>(&x);
            let c = classify(P::N, P::ES, &x);
            if !matches!(c, RClass::Zero | RClass::Exact) {
                l.nontrivial(hash_args(P::N as u64, &[bits]));
                l.label(match c {
                    RClass::Tie => "tie",
                    RClass::SatMax => "sat_max",
                    RClass::SatMin => "sat_min",
                    _ => "inexact",
                });
                if c == RClass::Tie {
                    l.sample(|| json!({"to": P::NAME, "f64": format!("{:#x}", bits), "value": f, "result": hex(w), "class": "tie"}));
                }
            }
            if f != 0.0 && f.abs() < f64::MIN_POSITIVE {
                l.label("subnormal");
            }
            w
        }
    };
    for (sp, got) in [("from_f64", guard(|| P::from_f64(f).tb())), ("From<f64>", guard(|| P::conv_from_f64(f).tb())), ("FromPrimitive::from_f64", guard(|| P::nt_from_f64(f).map(|p| p.tb()).unwrap_or(NONE_BITS))), ("NumCast::from(f64)", guard(|| P::nc_from_f64(f).map(|p| p.tb()).unwrap_or(NONE_BITS)))] {
        l.eval();
        if got.as_ref().ok() != Some(&want) {
            return expect_bits(&format!("{}.{}", P::NAME, sp), &[bits], want, got);
        }
    }
    Ok(())
}

pub fn from32<P: PT>(bits: u64, l: &mut Local) -> Result<(), Viol> {
    let f = f32::from_bits(bits as u32);
    let want = match Dy::from_f32(f) {
        None => nar::<P>(),
        Some(x) => {
            let w = rnd::<P, _>(&x);
            let c = classify(P::N, P::ES, &x);
            if !matches!(c, RClass::Zero | RClass::Exact) {
                l.nontrivial(hash_args(P::N as u64 + 100, &[bits]));
                l.label(match c {
                    RClass::Tie => "tie",
                    RClass::SatMax => "sat_max",
                    RClass::SatMin => "sat_min",
                    _ => "inexact",
                });
            }
            if f != 0.0 && f.abs() < f32::MIN_POSITIVE {
                l.label("subnormal");
            }
            w
        }
    };
    for (sp, got) in [("from_f32", guard(|| P::from_f32(f).tb())), ("From<f32>", guard(|| P::conv_from_f32(f).tb())), ("from_f64(x as f64)", guard(|| P::from_f64(f as f64).tb())), ("FromPrimitive::from_f32", guard(|| P::nt_from_f32(f).map(|p| p.tb()).unwrap_or(NONE_BITS))), ("NumCast::from(f32)", guard(|| P::nc_from_f32(f).map(|p| p.tb()).unwrap_or(NONE_BITS)))] {
        l.eval();
        if got.as_ref().ok() != Some(&want) {
            return expect_bits(&format!("{}.{}", P::NAME, sp), &[bits], want, got);
        }
    }
    Ok(())
}

/// all three targets from one f32 pattern, fast oracle (complete enumeration)
#[inline]
pub fn from32_fast(bits: u64, l: &mut Local) -> Result<(), Viol> {
    let f = f32::from_bits(bits as u32);
    let x = fr::from_f32(f);
    l.evaln(3);
    macro_rules! one {
        ($P:ty) => {{
            let want = match x {
                Some(x) => fenc::<$P>(x),
                None => nar::<$P>(),
            };
            let got = guard(|| <$P as PT>::from_f32(f).tb());
            if got.as_ref().ok() != Some(&want) {
                return expect_bits(&format!("{}.from_f32", <$P as PT>::NAME), &[bits], want, got);
            }
            want
        }};
    }
    one!(P8E0);
    one!(P16E1);
    let w32 = one!(P32E2);
    if let Some(x) = x {
        if x.sig != 0 && !fast_exact(32, 2, x, w32) {
            l.nontrivial(bits);
        }
    }
    Ok(())
}

pub fn run(rep: &mut Report) {
    let tier = rep.cfg.tier;
    rep.rule = "float bit patterns converted to P8E0, P16E1, P32E2 through from_f32/from_f64, the From impls and the num_traits spellings FromPrimitive::from_f32/from_f64 and NumCast::from (generated sections; the complete f32 scan uses the inherent from_f32); expected = posit rounding of the float's exact dyadic value (+-0 -> 0, NaN/inf -> NaR), and from_f32(x) must equal from_f64(x as f64). f64 generator: uniform bits, specials and crate thresholds, exponent-stratified structured mantissas, and the threshold lattice of each target (exact image of an (n+1)-bit threshold, +-1 f64 ulp, +- a far lower sticky bit). f32: same shape; thorough enumerates all 2^32 f32 patterns. Non-trivial = finite non-zero float whose value is not representable in the target; distinct (target, pattern)."
        .into();
    rep.assumptions = std_assumptions();
    super::run_corpus(rep, replay);
    let g = tier.pick(1_500_000, 12_000_000);
    rep.generated("f64 -> P8E0", g, gen::f64bits, |&b, l| from64::<P8E0>(b, l));
    rep.generated("f64 -> P16E1", g, gen::f64bits, |&b, l| from64::<P16E1>(b, l));
    rep.generated("f64 -> P32E2", g, gen::f64bits, |&b, l| from64::<P32E2>(b, l));
    let g = tier.pick(300_000, 3_000_000);
    rep.generated("f32 -> P8E0", g, gen::f32bits, |&b, l| from32::<P8E0>(b as u64, l));
    rep.generated("f32 -> P16E1", g, gen::f32bits, |&b, l| from32::<P16E1>(b as u64, l));
    rep.generated("f32 -> P32E2", g, gen::f32bits, |&b, l| from32::<P32E2>(b as u64, l));
    // complete lattice: every (n+1)-bit threshold of P8 and P16 as exact f64, -1/0/+1 ulp, for all three targets
    for &(tn, tes) in &[(8u32, 0u32), (16, 1)] {
        rep.lattice(&format!("every {}-bit threshold as exact f64, offsets -1,0,+1 f64-ulp -> all three targets", tn + 1), (1u64 << tn) * 3, move |i, l| {
            let v = ((i / 3) << 1) | 1;
            match decode(tn + 1, tes, v).and_then(|d| d.to_f64_exact()) {
                Some(f) if f != 0.0 => {
                    let b = (f.to_bits() as i64 + (i % 3) as i64 - 1) as u64;
                    from64::<P8E0>(b, l)?;
                    from64::<P16E1>(b, l)?;
                    from64::<P32E2>(b, l)
                }
                _ => Ok(()),
            }
        });
    }
    match tier {
        Tier::Quick => {
            rep.exhaustive("all 2^32 f32 patterns -> three targets (fast oracle)", 1 << 32, |i, l| from32_fast(i, l));
        }
        Tier::Thorough => {
            rep.exhaustive("all 2^32 f32 patterns -> three targets (fast oracle)", 1 << 32, |i, l| from32_fast(i, l));
        }
    }
}

pub fn replay(op: &str, args: &[u64]) -> Result<(), Viol> {
    let mut l = Local::new(false);
    let (ty, name) = split_op(op);
    let b = arg(args, 0);
    let is32 = name.contains("f32") || name.contains("x as f64");
    match (ty, is32) {
        ("P8E0", true) => from32::<P8E0>(b, &mut l),
        ("P16E1", true) => from32::<P16E1>(b, &mut l),
        (_, true) => from32::<P32E2>(b, &mut l),
        ("P8E0", false) => from64::<P8E0>(b, &mut l),
        ("P16E1", false) => from64::<P16E1>(b, &mut l),
        (_, false) => from64::<P32E2>(b, &mut l),
    }
}
