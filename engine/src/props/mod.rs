//! One module per property.  Each exposes `run(&mut Report)` and `replay(op, args)`.
use crate::core::{Report, Viol};

pub mod c01;
pub mod c02;
pub mod c03;
pub mod c04;
pub mod c05;
pub mod c06;
pub mod c07;
pub mod c08;
pub mod c09;
pub mod util;
pub mod c10;
pub mod c11;
pub mod c12;
pub mod c13;
pub mod c14;
pub mod c15;
pub mod c16;
pub mod c17;
pub mod c18;
pub mod c19;
pub mod quire;

pub type RunFn = fn(&mut Report);
pub type ReplayFn = fn(&str, &[u64]) -> Result<(), Viol>;

pub static ALL: &[(&str, RunFn, ReplayFn)] = &[
    ("C01", c01::run, c01::replay),
    ("C02", c02::run, c02::replay),
    ("C03", c03::run, c03::replay),
    ("C04", c04::run, c04::replay),
    ("C05", c05::run, c05::replay),
    ("C06", c06::run, c06::replay),
    ("C07", c07::run, c07::replay),
    ("C08", c08::run, c08::replay),
    ("C09", c09::run, c09::replay),
    ("C10", c10::run, c10::replay),
    ("C11", c11::run, c11::replay),
    ("C12", c12::run, c12::replay),
    ("C13", c13::run, c13::replay),
    ("C14", c14::run, c14::replay),
    ("C15", c15::run, c15::replay),
    ("C16", c16::run, c16::replay),
    ("C17", c17::run, c17::replay),
    ("C18", c18::run, c18::replay),
    ("C19", c19::run, c19::replay),
];

/// `--replay <file>`: re-evaluate one saved case with plain code (no proptest) on the current tree
pub fn replay(path: &str) -> i32 {
    let text = match std::fs::read_to_string(path) {
        Ok(t) => t,
        Err(e) => {
            eprintln!("cannot read {}: {}", path, e);
            return 2;
        }
    };
    let v: serde_json::Value = match serde_json::from_str(&text) {
        Ok(v) => v,
        Err(e) => {
            eprintln!("bad replay file {}: {}", path, e);
            return 2;
        }
    };
    let prop = v["property"].as_str().unwrap_or("");
    let op = v["op"].as_str().unwrap_or("");
    let args: Vec<u64> = v["args"]
        .as_array()
        .map(|a| a.iter().map(|x| u64::from_str_radix(x.as_str().unwrap_or("0").trim_start_matches("0x"), 16).unwrap_or(0)).collect())
        .unwrap_or_default();
    let entry = match ALL.iter().find(|x| x.0 == prop) {
        Some(e) => e,
        None => {
            eprintln!("unknown property {}", prop);
            return 2;
        }
    };
    match (entry.2)(op, &args) {
        Ok(()) => {
            crate::outln!("replay {}: property {} holds for {} {:x?}", path, prop, op, args);
            0
        }
        Err(viol) => {
            if let Some(id) = crate::findings::matches(prop, &viol) {
                crate::outln!("KNOWN-FINDING: property={} {} (replayed {} {:x?}: want={} got={})", prop, id, op, args, viol.want, viol.got);
                0
            } else {
                crate::outln!("VIOLATION property={} replay={}", prop, path);
                crate::outln!("  # {} args={:x?} want={} got={} ({})", viol.op, viol.args, viol.want, viol.got, viol.kind);
                1
            }
        }
    }
}

/// corpus: committed regression cases `/verif/corpus/<Cxx>/*.json` in the replay format
pub fn corpus(prop: &str) -> Vec<(String, Vec<u64>)> {
    let dir = format!("{}/corpus/{}", crate::core::verif_dir(), prop);
    let mut out = vec![];
    if let Ok(rd) = std::fs::read_dir(&dir) {
        let mut names: Vec<_> = rd.filter_map(|e| e.ok()).map(|e| e.path()).filter(|p| p.extension().map(|x| x == "json").unwrap_or(false)).collect();
        names.sort();
        for p in names {
            if let Ok(t) = std::fs::read_to_string(&p) {
                if let Ok(v) = serde_json::from_str::<serde_json::Value>(&t) {
                    let cases: Vec<serde_json::Value> = if let Some(a) = v.as_array() { a.clone() } else { vec![v] };
                    for c in cases {
                        let op = c["op"].as_str().unwrap_or("").to_string();
                        let args: Vec<u64> = c["args"].as_array().map(|a| a.iter().map(|x| u64::from_str_radix(x.as_str().unwrap_or("0").trim_start_matches("0x"), 16).unwrap_or(0)).collect()).unwrap_or_default();
                        out.push((op, args));
                    }
                }
            }
        }
    }
    out
}

/// replay the committed corpus of a property as the first section of a run
pub fn run_corpus(rep: &mut Report, replay: ReplayFn) {
    let items = corpus(rep.cfg.prop);
    if items.is_empty() {
        return;
    }
    rep.fixed("corpus replay", &items, |(op, args), l| {
        l.eval();
        replay(op, args)
    });
}
