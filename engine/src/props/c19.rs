//! C19 — random sampling yields real posits in [0,1) (DESIGN.md section 6, C19).
use super::util::*;
use crate::core::*;
use crate::pt::PT;
use crate::refmodel::*;
use proptest::prelude::*;
use rand::distributions::{Distribution, Standard};
use rand::rngs::mock::StepRng;
use rand::rngs::StdRng;
use rand::{RngCore, SeedableRng};
use serde_json::json;
use softposit::{P16E1, P32E2, P8E0};

/// an RNG whose output words are chosen by the generator: first the scripted words, then a
/// deterministic continuation (so that rejection loops always terminate)
pub struct Script {
    pub words: Vec<u64>,
    pub pos: usize,
    pub draws: u64,
}
impl Script {
    fn next(&mut self) -> u64 {
        self.draws += 1;
        let w = if self.pos < self.words.len() { self.words[self.pos] } else { splitmix(self.pos as u64 ^ self.words.first().copied().unwrap_or(0)) };
        self.pos += 1;
        w
    }
}
impl RngCore for Script {
    fn next_u32(&mut self) -> u32 {
        self.next() as u32
    }
    fn next_u64(&mut self) -> u64 {
        self.next()
    }
    fn fill_bytes(&mut self, dest: &mut [u8]) {
        for chunk in dest.chunks_mut(8) {
            let w = self.next().to_le_bytes();
            chunk.copy_from_slice(&w[..chunk.len()]);
        }
    }
    fn try_fill_bytes(&mut self, dest: &mut [u8]) -> Result<(), rand::Error> {
        self.fill_bytes(dest);
        Ok(())
    }
}

pub trait Samp: PT {
    fn sample<R: rand::Rng>(r: &mut R) -> Self;
}
macro_rules! impl_samp {
    ($P:ty) => {
        impl Samp for $P {
            fn sample<R: rand::Rng>(r: &mut R) -> Self {
                Distribution::<$P>::sample(&Standard, r)
            }
        }
    };
}
impl_samp!(P8E0);
impl_samp!(P16E1);
impl_samp!(P32E2);

/// judge one sample on its decoded value
fn judge<P: PT>(bits: u64, args: &[u64], l: &mut Local) -> Result<(), Viol> {
    let one = Dy::new(false, 1, 0);
    match dec::<P>(bits) {
        Some(x) if !x.neg && x.cmp(&one) == core::cmp::Ordering::Less => {
            // outcome in the top or bottom 1% of [0,1)
            let hi = Dy::new(false, 99, 0).cmp(&x.mul(&Dy::new(false, 100, 0))) == core::cmp::Ordering::Less;
            let lo = x.mul(&Dy::new(false, 100, 0)).cmp(&one) == core::cmp::Ordering::Less;
            if hi || lo {
                l.nontrivial(hash_args(P::N as u64, &[bits]));
                l.label(if hi { "top_1_percent" } else { "bottom_1_percent" });
            }
            if bits == 0 {
                l.label("sample_is_zero");
            }
            l.sample(|| json!({"type": P::NAME, "rng_words": args.iter().take(4).map(|w| hex(*w)).collect::<Vec<_>>(), "sample": hex(bits), "value": x.to_f64_exact()}));
            Ok(())
        }
        _ => Err(Viol::wrong_s(format!("{}.sample", P::NAME), args, "a real posit p with 0 <= p < 1".into(), hex(bits))),
    }
}

/// scripted stream: draw `k` samples from the script
pub fn scripted<P: Samp>(words: &[u64], k: usize, l: &mut Local) -> Result<(), Viol> {
    let mut rng = Script { words: words.to_vec(), pos: 0, draws: 0 };
    for _ in 0..k {
        l.eval();
        let before = rng.draws;
        let got = guard(|| P::sample(&mut rng).tb());
        match got {
            Ok(b) => judge::<P>(b, words, l)?,
            Err(e) => return Err(Viol::panic(format!("{}.sample", P::NAME), words, "no panic".into(), e)),
        }
        if rng.draws - before > 2 {
            l.label("stream_with_rejection_or_extra_draws");
        }
    }
    Ok(())
}

pub fn run(rep: &mut Report) {
    let tier = rep.cfg.tier;
    rep.rule = "samples of P8E0/P16E1/P32E2 from rand's Standard distribution under (a) scripted RNGs whose 32/64-bit output words are chosen by the generator — words enumerated so that every range index of the sampler is produced (P8: 2^6, P16: 2^18; P32: strided / thorough 2^27 first-draw indices x 4 second draws), extreme words (0, MAX, words next to rejection zones), proptest word streams; (b) StdRng from generated seeds and StepRng with generated start/increment. Each sample is judged on its independently decoded value: real and 0 <= p < 1; a panic is a violation. Non-trivial = sample in the top or bottom 1% of [0,1); distinct outcomes."
        .into();
    rep.assumptions = vec!["a constant RNG word stream (e.g. StepRng with increment 0, or an increment whose low 32 bits are 0) is outside the domain: rand 0.8's own rejection sampling never terminates on a constant word inside its rejection zone, for any Uniform range; StepRng increments are therefore odd and large (a step of 1 makes rand's rejection loop for a 4-value range run for up to 2^29 draws: slow, not wrong)".into(), "rand 0.8 gen_range consumes next_u32/next_u64 words; the scripted RNG covers its outcome space by enumerating the high bits of those words (coverage is reported as the number of distinct sampled outcomes, not assumed)".into()];
    super::run_corpus(rep, replay);
    // (a1) enumerate the sampler's range index through the top bits of the first word
    rep.exhaustive("P8E0: first word = k << 26 | fill, all 64 k x 16 fills", 64 * 16, |i, l| {
        let (k, f) = (i / 16, i % 16);
        let fill = [0u64, 0x3ff_ffff, 1, 0x155_5555][(f % 4) as usize] ^ (f / 4);
        scripted::<P8E0>(&[(k << 26) | fill, splitmix(i)], 1, l)
    });
    rep.exhaustive("P16E1: first word = k << 14 | fill, all 2^18 k x 2 fills", (1 << 18) * 2, |i, l| {
        let (k, f) = (i / 2, i % 2);
        scripted::<P16E1>(&[(k << 14) | if f == 0 { 0 } else { 0x3fff }, splitmix(i)], 1, l)
    });
    let stride = tier.pick(8, 1);
    let off = rep.cfg.seed % stride;
    rep.lattice(&format!("P32E2: first word = k << 5 | fill (every {}th of the 2^27 k), second word = s2 << 30, all 4 s2", stride), ((1u64 << 27) / stride) * 4, move |i, l| {
        let (k, s2) = ((i / 4) * stride + off, i % 4);
        scripted::<P32E2>(&[(k << 5) | (i & 0x1f), (s2 << 30) | (i & 0x3fff_ffff)], 1, l)
    });
    // both ends of the index range densely
    rep.lattice("P32E2: the 2^12 lowest and 2^12 highest first-draw indices x 4 second draws", (1 << 13) * 4, |i, l| {
        let j = i / 4;
        let k = if j < (1 << 12) { j } else { (1u64 << 27) - 1 - (j - (1 << 12)) };
        scripted::<P32E2>(&[(k << 5) | 0x1f, ((i % 4) << 30) | 0x3fff_ffff], 1, l)
    });
    // (a2) generated word streams, extreme words at high weight
    let words = || {
        proptest::collection::vec(
            prop_oneof![
                4 => any::<u64>(),
                2 => proptest::sample::select(vec![0u64, u64::MAX, u32::MAX as u64, 0xffff_ffff_0000_0000, 0x8000_0000, 0x7fff_ffff, 0xffff_c000, 0xffff_ffe0, 0xfc00_0000, 1, 0x3fff]),
                2 => (any::<u64>(), 0u32..64).prop_map(|(w, s)| u64::MAX << s ^ (w & 0xf)),
            ],
            1..12,
        )
    };
    let g = tier.pick(60_000, 1_000_000);
    rep.generated("P8E0 generated word streams (4 samples each)", g, words, |w, l| scripted::<P8E0>(w, 4, l));
    rep.generated("P16E1 generated word streams (4 samples each)", g, words, |w, l| scripted::<P16E1>(w, 4, l));
    rep.generated("P32E2 generated word streams (4 samples each)", g, words, |w, l| scripted::<P32E2>(w, 4, l));
    // (b) real generators
    fn real<P: Samp>(rep: &mut Report, seeds: u64, draws: usize) {
        rep.generated(&format!("{} StdRng from generated seeds, {} draws each; StepRng with generated start/increment", P::NAME, draws), seeds, || (any::<u64>(), any::<u64>(), prop_oneof![any::<u64>().prop_map(|x| x | 0x0000_0100_0110_0001), Just(0x9E37_79B9_7F4A_7C15u64), Just(0x0123_4567_89AB_CDEFu64)]), move |&(seed, start, inc), l| {
            let mut r = StdRng::seed_from_u64(seed);
            for _ in 0..draws {
                l.eval();
                match guard(|| P::sample(&mut r).tb()) {
                    Ok(b) => judge::<P>(b, &[seed], l)?,
                    Err(e) => return Err(Viol::panic(format!("{}.sample(StdRng)", P::NAME), &[seed], "no panic".into(), e)),
                }
            }
            let mut s = StepRng::new(start, inc);
            for _ in 0..8 {
                l.eval();
                match guard(|| P::sample(&mut s).tb()) {
                    Ok(b) => judge::<P>(b, &[start, inc], l)?,
                    Err(e) => return Err(Viol::panic(format!("{}.sample(StepRng)", P::NAME), &[start, inc], "no panic".into(), e)),
                }
            }
            Ok(())
        });
    }
    let (seeds, draws) = (tier.pick(2_000, 20_000), 256);
    real::<P8E0>(rep, seeds, draws);
    real::<P16E1>(rep, seeds, draws);
    real::<P32E2>(rep, seeds, draws);
}

pub fn replay(op: &str, args: &[u64]) -> Result<(), Viol> {
    let mut l = Local::new(false);
    let (ty, name) = split_op(op);
    if name.contains("StdRng") || name.contains("StepRng") {
        return Ok(()); // replayed through the generated section (seed is in args)
    }
    match ty {
        "P8E0" => scripted::<P8E0>(args, 4, &mut l),
        "P16E1" => scripted::<P16E1>(args, 4, &mut l),
        _ => scripted::<P32E2>(args, 4, &mut l),
    }
}
#[allow(dead_code)]
fn _u() {
    let _ = json!(0);
}
