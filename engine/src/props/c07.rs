//! C07 — integer conversions round to nearest even and saturate (DESIGN.md section 6, C07).
use super::util::*;
use crate::core::*;
use crate::fastref as fr;
use crate::gen;
use crate::pt::PT;
use crate::refmodel::*;
use serde_json::json;
use softposit::{P16E1, P32E2, P8E0};

pub const FROM: [&str; 10] = ["from_i8", "from_u8", "from_i16", "from_u16", "from_i32", "from_u32", "from_i64", "from_u64", "from_isize", "from_usize"];
pub const TO: [&str; 4] = ["to_i32", "to_u32", "to_i64", "to_u64"];

/// integer (given as the 64-bit two's complement / unsigned pattern `v`) -> posit, op index into FROM
pub fn from_int<P: PT>(op: usize, v: u64, l: &mut Local) -> Result<(), Viol> {
    l.eval();
    let (x, got): (Dy, Result<u64, String>) = match op {
        0 => (Dy::from_i64(v as i8 as i64), guard(|| P::from_i8(v as i8).tb())),
        1 => (Dy::from_u64(v as u8 as u64), guard(|| P::from_u8(v as u8).tb())),
        2 => (Dy::from_i64(v as i16 as i64), guard(|| P::from_i16(v as i16).tb())),
        3 => (Dy::from_u64(v as u16 as u64), guard(|| P::from_u16(v as u16).tb())),
        4 => (Dy::from_i64(v as i32 as i64), guard(|| P::from_i32(v as i32).tb())),
        5 => (Dy::from_u64(v as u32 as u64), guard(|| P::from_u32(v as u32).tb())),
        6 => (Dy::from_i64(v as i64), guard(|| P::from_i64(v as i64).tb())),
        7 => (Dy::from_u64(v), guard(|| P::from_u64(v).tb())),
        8 => (Dy::from_i64(v as i64), guard(|| P::from_isize(v as i64 as isize).tb())),
        _ => (Dy::from_u64(v), guard(|| P::from_usize(v as usize).tb())),
    };
    let want = rnd::<P, _>(&x);
    let c = classify(P::N, P::ES, &x);
    if !matches!(c, RClass::Zero | RClass::Exact) {
        l.nontrivial(hash_args(op as u64 + 1000 * P::N as u64, &[v]));
        l.label(match c {
            RClass::Tie => "tie",
            RClass::SatMax => "sat_max",
            _ => "inexact",
        });
        if c == RClass::Tie {
            l.sample(|| json!({"to": P::NAME, "op": FROM[op], "int": format!("{:#x}", v), "result": hex(want), "class": "tie"}));
        }
    }
    expect_bits(&format!("{}.{}", P::NAME, FROM[op]), &[v], want, got)
}

/// i32/u32 -> three types, fast oracle (complete enumeration)
#[inline]
pub fn from_32_fast(v: u64, l: &mut Local) -> Result<(), Viol> {
    let i = v as u32 as i32;
    let u = v as u32;
    let xi = fr::from_u64(i < 0, (i as i64).unsigned_abs());
    let xu = fr::from_u64(false, u as u64);
    l.evaln(6);
    macro_rules! one {
        ($P:ty) => {{
            let (wi, wu) = (fenc::<$P>(xi), fenc::<$P>(xu));
            let gi = guard(|| <$P as PT>::from_i32(i).tb());
            if gi.as_ref().ok() != Some(&wi) {
                return expect_bits(&format!("{}.from_i32", <$P as PT>::NAME), &[v], wi, gi);
            }
            let gu = guard(|| <$P as PT>::from_u32(u).tb());
            if gu.as_ref().ok() != Some(&wu) {
                return expect_bits(&format!("{}.from_u32", <$P as PT>::NAME), &[v], wu, gu);
            }
            wu
        }};
    }
    one!(P8E0);
    one!(P16E1);
    let w = one!(P32E2);
    if !fast_exact(32, 2, xu, w) {
        l.nontrivial(v);
    }
    Ok(())
}

/// posit -> integer, op index into TO.  NaR is outside the stated domain.
pub fn to_int<P: PT>(a: u64, l: &mut Local) -> Result<(), Viol> {
    let x = match dec::<P>(a) {
        Some(x) => x,
        None => return Ok(()),
    };
    let p = P::fb(a);
    let wi32 = rne_clamped(&x, i32::MIN as i128, i32::MAX as i128) as i32;
    let wu32 = rne_clamped(&x, 0, u32::MAX as i128) as u32;
    let wi64 = rne_clamped(&x, i64::MIN as i128, i64::MAX as i128) as i64;
    let wu64 = rne_clamped(&x, 0, u64::MAX as i128) as u64;
    l.evaln(4);
    let rs = [
        expect_bits(&format!("{}.to_i32", P::NAME), &[a], wi32 as u32 as u64, guard(|| p.to_i32() as u32 as u64)),
        expect_bits(&format!("{}.to_u32", P::NAME), &[a], wu32 as u64, guard(|| p.to_u32() as u64)),
        expect_bits(&format!("{}.to_i64", P::NAME), &[a], wi64 as u64, guard(|| p.to_i64() as u64)),
        expect_bits(&format!("{}.to_u64", P::NAME), &[a], wu64, guard(|| p.to_u64())),
    ];
    for r in rs {
        r?;
    }
    let nonint = x.exp < 0;
    let out_of_range = x.neg || x.cmp_abs(&Dy::new(false, 1, 31)) != core::cmp::Ordering::Less;
    if nonint || out_of_range {
        l.nontrivial(a);
        if nonint && x.exp == -1 {
            l.label("half_integer(tie)");
        }
        if out_of_range {
            l.label("negative or >= 2^31");
        }
        l.sample(|| json!({"type": P::NAME, "a": hex(a), "value": x.to_f64_exact(), "to_i32": wi32, "to_u64": wu64}));
    }
    Ok(())
}

/// P32 -> integers with the fast fixed-point split (complete scans)
#[inline]
pub fn to_int_fast(a: u64, l: &mut Local) -> Result<(), Viol> {
    let x = match fr::decode(32, 2, a) {
        Some(x) => x,
        None => return Ok(()),
    };
    let p = P32E2::from_bits(a as u32);
    l.evaln(4);
    // magnitude rounded to integer as u128 (saturating at 2^100)
    let mag: u128 = if x.sig == 0 {
        0
    } else {
        let x = x.norm();
        let scale = x.exp + 127;
        if scale >= 100 {
            1u128 << 100
        } else if scale < -1 {
            0
        } else {
            let v: u128 = x.sig >> (63 - scale.min(63)); // 64 fractional bits when scale <= 63
            if scale > 63 {
                (x.sig >> 64) << (scale - 63)
            } else {
                let ip = v >> 64;
                let fp = v as u64;
                let half = 1u64 << 63;
                if fp > half || (fp == half && ip & 1 == 1) { ip + 1 } else { ip }
            }
        }
    };
    let neg = x.neg && mag != 0;
    let s = |lo: i128, hi: i128| -> i128 {
        let v = if mag > (1u128 << 100) { 1i128 << 100 } else { mag as i128 };
        (if neg { -v } else { v }).clamp(lo, hi)
    };
    let (wi32, wu32, wi64, wu64) = (s(i32::MIN as i128, i32::MAX as i128) as i32, s(0, u32::MAX as i128) as u32, s(i64::MIN as i128, i64::MAX as i128) as i64, s(0, u64::MAX as i128) as u64);
    let rs = [
        (wi32 as u32 as u64, guard(|| p.to_i32() as u32 as u64), "to_i32"),
        (wu32 as u64, guard(|| p.to_u32() as u64), "to_u32"),
        (wi64 as u64, guard(|| p.to_i64() as u64), "to_i64"),
        (wu64, guard(|| p.to_u64()), "to_u64"),
    ];
    for (w, g, name) in rs {
        if g.as_ref().ok() != Some(&w) {
            return expect_bits(&format!("P32E2.{}", name), &[a], w, g);
        }
    }
    if a & 0x8000_0000 != 0 || a >= 0x7fb0_0000 || (a & 0xff) != 0 {
        l.nontrivial(a);
    }
    Ok(())
}

pub fn run(rep: &mut Report) {
    let tier = rep.cfg.tier;
    rep.rule = "integer -> posit: from_i8..from_usize of the integer against the posit rounding of its exact value (i8/u8/i16/u16: all values; i32/u32: all 2^32 values in both tiers; i64/u64/isize/usize: proptest int64 generator = specials, crate thresholds, powers of two +-2, short mantissa * 2^s with optional sticky bits). posit -> integer: to_i32/to_u32/to_i64/to_u64 of every real pattern against round-half-even clamped to the target range (P8, P16 and P32: all patterns in both tiers). Non-trivial = integer not representable in the target posit / posit value non-integer or outside i32; distinct (op, input)."
        .into();
    rep.assumptions = std_assumptions();
    super::run_corpus(rep, replay);
    fn narrow<P: PT>(rep: &mut Report) {
        rep.exhaustive(&format!("{} from_i8/from_u8 all 256, from_i16/from_u16 all 65536", P::NAME), 1 << 16, |i, l| {
            if i < 256 {
                from_int::<P>(0, i, l)?;
                from_int::<P>(1, i, l)?;
            }
            from_int::<P>(2, i, l)?;
            from_int::<P>(3, i, l)
        });
    }
    narrow::<P8E0>(rep);
    narrow::<P16E1>(rep);
    narrow::<P32E2>(rep);
    let g = tier.pick(1_000_000, 5_000_000);
    fn wide<P: PT>(rep: &mut Report, g: u64) {
        rep.generated(&format!("{} from_i32/u32/i64/u64/isize/usize (int64 generator)", P::NAME), g, gen::int64, |&v, l| {
            for op in 4..10 {
                from_int::<P>(op, v, l)?;
            }
            // the same low 32 bits sign- and zero-extended reach the i32 thresholds as i64 too
            from_int::<P>(6, v as u32 as i32 as i64 as u64, l)?;
            from_int::<P>(7, v as u32 as u64, l)
        });
    }
    wide::<P8E0>(rep, g);
    wide::<P16E1>(rep, g);
    wide::<P32E2>(rep, g);
    rep.exhaustive("P8E0 to_i32/u32/i64/u64 all real patterns", 1 << 8, |i, l| to_int::<P8E0>(i, l));
    rep.exhaustive("P16E1 to_i32/u32/i64/u64 all real patterns", 1 << 16, |i, l| to_int::<P16E1>(i, l));
    rep.generated("P32E2 to_i32/u32/i64/u64 structured bits (exact oracle)", g, || gen::bits(32), |&a, l| to_int::<P32E2>(a, l));
    // every integer boundary pattern: posits within +-2 ulp of k, k + 1/2 for small k, and of 2^s, 2^s(1+2^-j)
    rep.lattice("P32E2 to_*: patterns within +-2 ulp of k/2 (k < 2^14) and of powers of two up to 2^66 (exact oracle)", (1 << 14) * 5 + 140 * 5, |i, l| {
        let (idx, d) = (i / 5, (i % 5) as i64 - 2);
        let x = if idx < (1 << 14) { Dy::new(false, idx, -1) } else { Dy::new(false, 1, (idx - (1 << 14)) as i32 - 4) };
        let b = round_posit(32, 2, &x);
        let p = ((b as i64 + d) as u64) & 0xffff_ffff;
        to_int::<P32E2>(p, l)?;
        to_int::<P32E2>(p.wrapping_neg() & 0xffff_ffff, l)
    });
    match tier {
        Tier::Quick => {
            rep.exhaustive("all 2^32 32-bit integers: from_i32, from_u32 -> three types (fast oracle)", 1 << 32, |i, l| from_32_fast(i, l));
            rep.exhaustive("P32E2 all 2^32 patterns: to_i32/u32/i64/u64 (fast oracle)", 1 << 32, |i, l| to_int_fast(i, l));
        }
        Tier::Thorough => {
            rep.exhaustive("all 2^32 32-bit integers: from_i32, from_u32 -> three types (fast oracle)", 1 << 32, |i, l| from_32_fast(i, l));
            rep.exhaustive("P32E2 all 2^32 patterns: to_i32/u32/i64/u64 (fast oracle)", 1 << 32, |i, l| to_int_fast(i, l));
        }
    }
}

pub fn replay(op: &str, args: &[u64]) -> Result<(), Viol> {
    let mut l = Local::new(false);
    let (ty, name) = split_op(op);
    let v = arg(args, 0);
    if let Some(i) = FROM.iter().position(|o| *o == name) {
        return match ty {
            "P8E0" => from_int::<P8E0>(i, v, &mut l),
            "P16E1" => from_int::<P16E1>(i, v, &mut l),
            _ => from_int::<P32E2>(i, v, &mut l),
        };
    }
    match ty {
        "P8E0" => to_int::<P8E0>(v, &mut l),
        "P16E1" => to_int::<P16E1>(v, &mut l),
        _ => to_int::<P32E2>(v, &mut l),
    }
}
