//! C17 — all spellings of one operation agree (DESIGN.md section 6, C17).
//! Oracle-free differential: the forwarding spelling must give the same bits as the inherent
//! operation of the concrete type (or both must fail the same way, e.g. both `todo!()` stubs).
use super::quire::*;
use super::util::*;
use crate::core::*;
use crate::gen;
use crate::pt::{PT, QT};
use proptest::prelude::*;
use serde_json::json;
use softposit::{P16E1, P32E2, P8E0, Q16E1, Q32E2, Q8E0};

/// outcome of a spelling: bits, or the panic message without its source location
type Out = Result<u64, String>;
fn norm(r: Out) -> Out {
    r.map_err(|m| m.split_once(": ").map(|x| x.1.to_string()).unwrap_or(m))
}
fn same(name: &str, ty: &str, args: &[u64], inherent: Out, other: Out) -> Result<(), Viol> {
    let (a, b) = (norm(inherent), norm(other));
    if a == b {
        return Ok(());
    }
    let show = |o: &Out| match o {
        Ok(v) => format!("{:#x}", v),
        Err(m) => format!("panic: {}", m),
    };
    Err(Viol { op: format!("{}.{}", ty, name), args: args.to_vec(), want: show(&a), got: show(&b), kind: "wrong" })
}
fn fcan(f: f64) -> u64 {
    if f.is_nan() { 0x7ff8_0000_0000_0000 } else { f.to_bits() }
}
fn fcan32(f: f32) -> u64 {
    if f.is_nan() { 0x7fc0_0000 } else { f.to_bits() as u64 }
}

pub trait Spell: PT {
    /// compare every spelling pair that takes posit operands a, b, c
    fn posit_ops(a: u64, b: u64, c: u64, l: &mut Local) -> Result<(), Viol>;
    /// conversions from primitive values (x: integer pattern, f: f64 pattern)
    fn prim_ops(x: u64, f: u64, l: &mut Local) -> Result<(), Viol>;
    /// constants and type aliases (no inputs)
    fn consts(l: &mut Local) -> Result<(), Viol>;
}

macro_rules! impl_spell {
    ($P:ty, $U:ty, $Alias:ty, $Q:ty, $QAlias:ty) => {
        impl Spell for $P {
            fn posit_ops(a: u64, b: u64, c: u64, l: &mut Local) -> Result<(), Viol> {
                use num_traits::{Float, Signed, ToPrimitive, Zero, One};
                type P = $P;
                let ty = <P as PT>::NAME;
                let (pa, pb, pc) = (<P as PT>::fb(a), <P as PT>::fb(b), <P as PT>::fb(c));
                let t = |p: P| p.to_bits() as u64;
                let ab = [a, b];
                let mut n = 0u64;
                macro_rules! cmp {
                    ($name:expr, $args:expr, $inh:expr, $oth:expr) => {{
                        n += 1;
                        same($name, ty, $args, guard(|| $inh), guard(|| $oth))?;
                    }};
                }
                // operators, op-assign, inherent const fns
                cmp!("a+b vs add", &ab, t(pa.add(pb)), t(pa + pb));
                cmp!("a-b vs sub", &ab, t(pa.sub(pb)), t(pa - pb));
                cmp!("a*b vs mul", &ab, t(pa.mul(pb)), t(pa * pb));
                cmp!("a/b vs div", &ab, t(pa.div(pb)), t(pa / pb));
                cmp!("a%b vs rem", &ab, t(pa.rem(pb)), t(pa % pb));
                cmp!("-a vs neg", &[a], t(pa.neg()), t(-pa));
                cmp!("+= vs add", &ab, t(pa.add(pb)), { let mut x = pa; x += pb; t(x) });
                cmp!("-= vs sub", &ab, t(pa.sub(pb)), { let mut x = pa; x -= pb; t(x) });
                cmp!("*= vs mul", &ab, t(pa.mul(pb)), { let mut x = pa; x *= pb; t(x) });
                cmp!("/= vs div", &ab, t(pa.div(pb)), { let mut x = pa; x /= pb; t(x) });
                cmp!("%= vs rem", &ab, t(pa.rem(pb)), { let mut x = pa; x %= pb; t(x) });
                // From/Into for the 12 primitive targets vs to_*
                cmp!("Into<i8> vs to_i8", &[a], pa.to_i8() as u8 as u64, i8::from(pa) as u8 as u64);
                cmp!("Into<i16> vs to_i16", &[a], pa.to_i16() as u16 as u64, i16::from(pa) as u16 as u64);
                cmp!("Into<i32> vs to_i32", &[a], pa.to_i32() as u32 as u64, i32::from(pa) as u32 as u64);
                cmp!("Into<i64> vs to_i64", &[a], pa.to_i64() as u64, i64::from(pa) as u64);
                cmp!("Into<isize> vs to_isize", &[a], pa.to_isize() as u64, isize::from(pa) as u64);
                cmp!("Into<u8> vs to_u8", &[a], pa.to_u8() as u64, u8::from(pa) as u64);
                cmp!("Into<u16> vs to_u16", &[a], pa.to_u16() as u64, u16::from(pa) as u64);
                cmp!("Into<u32> vs to_u32", &[a], pa.to_u32() as u64, u32::from(pa) as u64);
                cmp!("Into<u64> vs to_u64", &[a], pa.to_u64(), u64::from(pa));
                cmp!("Into<usize> vs to_usize", &[a], pa.to_usize() as u64, usize::from(pa) as u64);
                cmp!("Into<f32> vs to_f32", &[a], fcan32(pa.to_f32()), fcan32(f32::from(pa)));
                cmp!("Into<f64> vs to_f64", &[a], fcan(pa.to_f64()), fcan(f64::from(pa)));
                // num_traits: Zero, One, Signed, ToPrimitive, Float
                cmp!("Zero::is_zero vs is_zero", &[a], pa.is_zero() as u64, Zero::is_zero(&pa) as u64);
                cmp!("One::is_one vs == ONE", &[a], (pa == P::ONE) as u64, One::is_one(&pa) as u64);
                cmp!("Signed::abs vs abs", &[a], t(pa.abs()), t(Signed::abs(&pa)));
                cmp!("Signed::signum vs signum", &[a], t(pa.signum()), t(Signed::signum(&pa)));
                cmp!("Signed::is_negative vs is_sign_negative", &[a], pa.is_sign_negative() as u64, Signed::is_negative(&pa) as u64);
                cmp!("Signed::is_positive vs is_sign_positive", &[a], pa.is_sign_positive() as u64, Signed::is_positive(&pa) as u64);
                cmp!("Signed::abs_sub vs its defining formula", &ab, if pa.le(pb) { t(P::ZERO) } else { t(pa.sub(pb)) }, t(Signed::abs_sub(&pa, &pb)));
                cmp!("ToPrimitive::to_i64 vs to_i64", &[a], pa.to_i64() as u64, ToPrimitive::to_i64(&pa).map(|v| v as u64).unwrap_or(0xdead));
                cmp!("ToPrimitive::to_u64 vs to_u64", &[a], pa.to_u64(), ToPrimitive::to_u64(&pa).unwrap_or(0xdead));
                cmp!("ToPrimitive::to_f64 vs to_f64", &[a], fcan(pa.to_f64()), ToPrimitive::to_f64(&pa).map(fcan).unwrap_or(0xdead));
                cmp!("Float::is_nan", &[a], pa.is_nan() as u64, Float::is_nan(pa) as u64);
                cmp!("Float::is_infinite", &[a], pa.is_infinite() as u64, Float::is_infinite(pa) as u64);
                cmp!("Float::is_finite", &[a], pa.is_finite() as u64, Float::is_finite(pa) as u64);
                cmp!("Float::is_normal", &[a], pa.is_normal() as u64, Float::is_normal(pa) as u64);
                cmp!("Float::classify", &[a], pa.classify() as u64, Float::classify(pa) as u64);
                cmp!("Float::floor", &[a], t(pa.floor()), t(Float::floor(pa)));
                cmp!("Float::ceil", &[a], t(pa.ceil()), t(Float::ceil(pa)));
                cmp!("Float::round", &[a], t(pa.round()), t(Float::round(pa)));
                cmp!("Float::trunc", &[a], t(pa.trunc()), t(Float::trunc(pa)));
                cmp!("Float::fract", &[a], t(pa.fract()), t(Float::fract(pa)));
                cmp!("Float::abs", &[a], t(pa.abs()), t(Float::abs(pa)));
                cmp!("Float::signum", &[a], t(pa.signum()), t(Float::signum(pa)));
                cmp!("Float::is_sign_positive", &[a], pa.is_sign_positive() as u64, Float::is_sign_positive(pa) as u64);
                cmp!("Float::is_sign_negative", &[a], pa.is_sign_negative() as u64, Float::is_sign_negative(pa) as u64);
                cmp!("Float::mul_add", &[a, b, c], t(pa.mul_add(pb, pc)), t(Float::mul_add(pa, pb, pc)));
                cmp!("Float::recip", &[a], t(pa.recip()), t(Float::recip(pa)));
                cmp!("Float::sqrt", &[a], t(pa.sqrt()), t(Float::sqrt(pa)));
                cmp!("Float::max vs max", &ab, t(pa.max(pb)), t(Float::max(pa, pb)));
                cmp!("Float::min vs min", &ab, t(pa.min(pb)), t(Float::min(pa, pb)));
                cmp!("Float::powf", &ab, t(pa.powf(pb)), t(Float::powf(pa, pb)));
                cmp!("Float::powi", &[a, b & 7], t(pa.powi((b & 7) as i32)), t(Float::powi(pa, (b & 7) as i32)));
                cmp!("Float::exp", &[a], t(pa.exp()), t(Float::exp(pa)));
                cmp!("Float::exp2", &[a], t(pa.exp2()), t(Float::exp2(pa)));
                cmp!("Float::ln", &[a], t(pa.ln()), t(Float::ln(pa)));
                cmp!("Float::log", &ab, t(pa.log(pb)), t(Float::log(pa, pb)));
                cmp!("Float::log2", &[a], t(pa.log2()), t(Float::log2(pa)));
                cmp!("Float::log10", &[a], t(pa.log10()), t(Float::log10(pa)));
                cmp!("Float::cbrt", &[a], if a == 0 || a == nar::<P>() { 0 } else { t(pa.cbrt()) }, if a == 0 || a == nar::<P>() { 0 } else { t(Float::cbrt(pa)) });
                cmp!("Float::hypot", &ab, t(pa.hypot(pb)), t(Float::hypot(pa, pb)));
                cmp!("Float::sin", &[a], t(pa.sin()), t(Float::sin(pa)));
                cmp!("Float::cos", &[a], t(pa.cos()), t(Float::cos(pa)));
                cmp!("Float::tan", &[a], t(pa.tan()), t(Float::tan(pa)));
                cmp!("Float::asin", &[a], t(pa.asin()), t(Float::asin(pa)));
                cmp!("Float::acos", &[a], t(pa.acos()), t(Float::acos(pa)));
                cmp!("Float::atan", &[a], t(pa.atan()), t(Float::atan(pa)));
                cmp!("Float::atan2", &ab, t(pa.atan2(pb)), t(Float::atan2(pa, pb)));
                cmp!("Float::sin_cos", &[a], { let (s, c) = pa.sin_cos(); t(s) << 32 | t(c) }, { let (s, c) = Float::sin_cos(pa); t(s) << 32 | t(c) });
                cmp!("Float::exp_m1", &[a], t(pa.exp_m1()), t(Float::exp_m1(pa)));
                cmp!("Float::ln_1p", &[a], t(pa.ln_1p()), t(Float::ln_1p(pa)));
                cmp!("Float::sinh", &[a], t(pa.sinh()), t(Float::sinh(pa)));
                cmp!("Float::cosh", &[a], t(pa.cosh()), t(Float::cosh(pa)));
                cmp!("Float::tanh", &[a], t(pa.tanh()), t(Float::tanh(pa)));
                cmp!("Float::asinh", &[a], t(pa.asinh()), t(Float::asinh(pa)));
                cmp!("Float::acosh", &[a], t(pa.acosh()), t(Float::acosh(pa)));
                cmp!("Float::atanh", &[a], t(pa.atanh()), t(Float::atanh(pa)));
                // the type alias is the same type: a value of the alias type is accepted by the concrete API
                let al: $Alias = pa;
                cmp!("alias value", &[a], t(pa), t(al));
                l.evaln(n);
                if a != 0 && b != 0 && a != nar::<P>() && b != nar::<P>() {
                    l.nontrivial(hash_args(<P as PT>::N as u64, &[a, b, c]));
                }
                Ok(())
            }

            fn prim_ops(x: u64, f: u64, l: &mut Local) -> Result<(), Viol> {
                use num_traits::{FromPrimitive, Num, NumCast};
                type P = $P;
                let ty = <P as PT>::NAME;
                let t = |p: P| p.to_bits() as u64;
                let to = |p: Option<P>| p.map(|p| p.to_bits() as u64).unwrap_or(0xdead_0000_0000);
                let fv = f64::from_bits(f);
                let f32v = f32::from_bits(f as u32);
                let mut n = 0u64;
                macro_rules! cmp {
                    ($name:expr, $args:expr, $inh:expr, $oth:expr) => {{
                        n += 1;
                        same($name, ty, $args, guard(|| $inh), guard(|| $oth))?;
                    }};
                }
                cmp!("From<i8> vs from_i8", &[x], t(P::from_i8(x as i8)), t(<P as From<i8>>::from(x as i8)));
                cmp!("From<i16> vs from_i16", &[x], t(P::from_i16(x as i16)), t(<P as From<i16>>::from(x as i16)));
                cmp!("From<i32> vs from_i32", &[x], t(P::from_i32(x as i32)), t(<P as From<i32>>::from(x as i32)));
                cmp!("From<i64> vs from_i64", &[x], t(P::from_i64(x as i64)), t(<P as From<i64>>::from(x as i64)));
                cmp!("From<isize> vs from_isize", &[x], t(P::from_isize(x as isize)), t(<P as From<isize>>::from(x as isize)));
                cmp!("From<u8> vs from_u8", &[x], t(P::from_u8(x as u8)), t(<P as From<u8>>::from(x as u8)));
                cmp!("From<u16> vs from_u16", &[x], t(P::from_u16(x as u16)), t(<P as From<u16>>::from(x as u16)));
                cmp!("From<u32> vs from_u32", &[x], t(P::from_u32(x as u32)), t(<P as From<u32>>::from(x as u32)));
                cmp!("From<u64> vs from_u64", &[x], t(P::from_u64(x)), t(<P as From<u64>>::from(x)));
                cmp!("From<usize> vs from_usize", &[x], t(P::from_usize(x as usize)), t(<P as From<usize>>::from(x as usize)));
                cmp!("From<f32> vs from_f32", &[f], t(P::from_f32(f32v)), t(<P as From<f32>>::from(f32v)));
                cmp!("From<f64> vs from_f64", &[f], t(P::from_f64(fv)), t(<P as From<f64>>::from(fv)));
                cmp!("FromPrimitive::from_i8", &[x], t(P::from_i8(x as i8)), to(<P as FromPrimitive>::from_i8(x as i8)));
                cmp!("FromPrimitive::from_i16", &[x], t(P::from_i16(x as i16)), to(<P as FromPrimitive>::from_i16(x as i16)));
                cmp!("FromPrimitive::from_i32", &[x], t(P::from_i32(x as i32)), to(<P as FromPrimitive>::from_i32(x as i32)));
                cmp!("FromPrimitive::from_i64", &[x], t(P::from_i64(x as i64)), to(<P as FromPrimitive>::from_i64(x as i64)));
                cmp!("FromPrimitive::from_u8", &[x], t(P::from_u8(x as u8)), to(<P as FromPrimitive>::from_u8(x as u8)));
                cmp!("FromPrimitive::from_u16", &[x], t(P::from_u16(x as u16)), to(<P as FromPrimitive>::from_u16(x as u16)));
                cmp!("FromPrimitive::from_u32", &[x], t(P::from_u32(x as u32)), to(<P as FromPrimitive>::from_u32(x as u32)));
                cmp!("FromPrimitive::from_u64", &[x], t(P::from_u64(x)), to(<P as FromPrimitive>::from_u64(x)));
                cmp!("FromPrimitive::from_f32", &[f], t(P::from_f32(f32v)), to(<P as FromPrimitive>::from_f32(f32v)));
                cmp!("FromPrimitive::from_f64", &[f], t(P::from_f64(fv)), to(<P as FromPrimitive>::from_f64(fv)));
                cmp!("NumCast::from(f64) vs From<f64>", &[f], t(P::from_f64(fv)), to(<P as NumCast>::from(fv)));
                cmp!("NumCast::from(i32) vs from_f64(i as f64)", &[x], t(P::from_f64(x as i32 as f64)), to(<P as NumCast>::from(x as i32)));
                // Num::from_str_radix: decimal text of a finite f64 and a short radix-16 / radix-2 text
                if fv.is_finite() {
                    let s = format!("{:e}", fv);
                    cmp!("Num::from_str_radix(10) vs From<f64>(f64::from_str_radix)", &[f], <f64 as Num>::from_str_radix(&s, 10).map(|v| t(P::from_f64(v))).unwrap_or(0xbad), <P as Num>::from_str_radix(&s, 10).map(t).unwrap_or(0xbad));
                }
                let hx = format!("{}{:x}.{:x}", if x >> 63 == 1 { "-" } else { "" }, (x >> 8) & 0xfffff, x & 0xff);
                cmp!("Num::from_str_radix(16)", &[x], <f64 as Num>::from_str_radix(&hx, 16).map(|v| t(P::from_f64(v))).unwrap_or(0xbad), <P as Num>::from_str_radix(&hx, 16).map(t).unwrap_or(0xbad));
                l.evaln(n);
                l.nontrivial(hash_args(<P as PT>::N as u64 + 7, &[x, f]));
                Ok(())
            }

            fn consts(l: &mut Local) -> Result<(), Viol> {
                use num_traits::{Bounded, Float, FloatConst, One, Zero};
                use softposit::MathConsts;
                type P = $P;
                let ty = <P as PT>::NAME;
                let t = |p: P| p.to_bits() as u64;
                let mut n = 0u64;
                macro_rules! cmp {
                    ($name:expr, $inh:expr, $oth:expr) => {{
                        n += 1;
                        same($name, ty, &[], guard(|| $inh), guard(|| $oth))?;
                    }};
                }
                cmp!("Zero::zero", t(P::ZERO), t(<P as Zero>::zero()));
                cmp!("One::one", t(P::ONE), t(<P as One>::one()));
                cmp!("Float::nan", t(P::NAR), t(<P as Float>::nan()));
                cmp!("Float::infinity", t(P::NAR), t(<P as Float>::infinity()));
                cmp!("Float::neg_infinity", t(P::NAR), t(<P as Float>::neg_infinity()));
                cmp!("Float::neg_zero", t(P::ZERO), t(<P as Float>::neg_zero()));
                cmp!("Float::min_value", t(P::MIN), t(<P as Float>::min_value()));
                cmp!("Float::max_value", t(P::MAX), t(<P as Float>::max_value()));
                cmp!("Float::min_positive_value", t(P::MIN_POSITIVE), t(<P as Float>::min_positive_value()));
                cmp!("Bounded::min_value", t(P::MIN), t(<P as Bounded>::min_value()));
                cmp!("Bounded::max_value", t(P::MAX), t(<P as Bounded>::max_value()));
                cmp!("FloatConst::E", t(<P as MathConsts>::E), t(<P as FloatConst>::E()));
                cmp!("FloatConst::FRAC_1_PI", t(<P as MathConsts>::FRAC_1_PI), t(<P as FloatConst>::FRAC_1_PI()));
                cmp!("FloatConst::FRAC_1_SQRT_2", t(<P as MathConsts>::FRAC_1_SQRT_2), t(<P as FloatConst>::FRAC_1_SQRT_2()));
                cmp!("FloatConst::FRAC_2_PI", t(<P as MathConsts>::FRAC_2_PI), t(<P as FloatConst>::FRAC_2_PI()));
                cmp!("FloatConst::FRAC_2_SQRT_PI", t(<P as MathConsts>::FRAC_2_SQRT_PI), t(<P as FloatConst>::FRAC_2_SQRT_PI()));
                cmp!("FloatConst::FRAC_PI_2", t(<P as MathConsts>::FRAC_PI_2), t(<P as FloatConst>::FRAC_PI_2()));
                cmp!("FloatConst::FRAC_PI_3", t(<P as MathConsts>::FRAC_PI_3), t(<P as FloatConst>::FRAC_PI_3()));
                cmp!("FloatConst::FRAC_PI_4", t(<P as MathConsts>::FRAC_PI_4), t(<P as FloatConst>::FRAC_PI_4()));
                cmp!("FloatConst::FRAC_PI_6", t(<P as MathConsts>::FRAC_PI_6), t(<P as FloatConst>::FRAC_PI_6()));
                cmp!("FloatConst::FRAC_PI_8", t(<P as MathConsts>::FRAC_PI_8), t(<P as FloatConst>::FRAC_PI_8()));
                cmp!("FloatConst::LN_10", t(<P as MathConsts>::LN_10), t(<P as FloatConst>::LN_10()));
                cmp!("FloatConst::LN_2", t(<P as MathConsts>::LN_2), t(<P as FloatConst>::LN_2()));
                cmp!("FloatConst::LOG10_E", t(<P as MathConsts>::LOG10_E), t(<P as FloatConst>::LOG10_E()));
                cmp!("FloatConst::LOG2_E", t(<P as MathConsts>::LOG2_E), t(<P as FloatConst>::LOG2_E()));
                cmp!("FloatConst::PI", t(<P as MathConsts>::PI), t(<P as FloatConst>::PI()));
                cmp!("FloatConst::SQRT_2", t(<P as MathConsts>::SQRT_2), t(<P as FloatConst>::SQRT_2()));
                // aliases: same type (checked by the compiler: these assignments would not type-check otherwise)
                let _p: $Alias = <$P>::ONE;
                let _q: $QAlias = <$Q>::init();
                let _aq: <$P as softposit::AssociatedQuire<$P>>::Q = <$Q>::init();
                cmp!("alias Q::init is_zero", 1u64, <$QAlias>::init().is_zero() as u64);
                l.evaln(n);
                l.nontrivial(<P as PT>::N as u64);
                l.nontrivial(<P as PT>::N as u64 + 1);
                Ok(())
            }
        }
    };
}
impl_spell!(P8E0, u8, softposit::P8, Q8E0, softposit::Q8);
impl_spell!(P16E1, u16, softposit::P16, Q16E1, softposit::Q16);
impl_spell!(P32E2, u32, softposit::P32, Q32E2, softposit::Q32);

/// two quires in lock-step: inherent spellings vs `softposit::Quire` trait spellings
pub fn quire_lockstep<Q: QT>(steps: &[Step], perm: u64, l: &mut Local) -> Result<(), Viol> {
    let args = encode_history(steps, perm);
    let f = <Q::P as PT>::fb;
    let mut q1 = Q::init();
    let mut q2 = Q::t_init();
    for (i, st) in steps.iter().enumerate() {
        let [a, b, _, _] = st.p;
        // map every product spelling onto add_product / sub_product term by term
        for (neg, x, y) in terms_of(st) {
            let m = gen::mask(<Q::P as PT>::N);
            match y {
                Some(y) => {
                    let r = guard(|| {
                        if neg {
                            q1.sub_product(f(x & m), f(y & m));
                            q2.t_sub_product(f(x & m), f(y & m));
                        } else {
                            q1.add_product(f(x & m), f(y & m));
                            q2.t_add_product(f(x & m), f(y & m));
                        }
                    });
                    if let Err(e) = r {
                        return Err(Viol::panic(format!("{}.lockstep@{}", Q::NAME, i), &args, "no panic".into(), e));
                    }
                }
                None => {
                    // single posit: both quires through the operator (no trait spelling exists, so nothing
                    // is compared here; a panic of the crate in this step is C04's / C16's business — the
                    // history just ends, it must not look like a harness error)
                    let r = guard(|| {
                        if neg {
                            q1.sub_posit(f(x & m));
                            q2.sub_posit(f(x & m));
                        } else {
                            q1.add_posit(f(x & m));
                            q2.add_posit(f(x & m));
                        }
                    });
                    if r.is_err() {
                        l.label("crate_panic_in_single_posit_step(not judged by C17)");
                        return Ok(());
                    }
                }
            }
        }
        match st.code {
            NEG => {
                q1.neg();
                q2.t_neg();
            }
            CLEAR => {
                q1.clear();
                q2.t_clear();
            }
            _ => {}
        }
        let _ = (a, b);
        l.evaln(5);
        let nm = |s: &str| format!("{}.{}@step{}", Q::NAME, s, i + 1);
        let (i1, i2) = (q1.image(), q2.t_image());
        if i1 != i2 {
            return Err(Viol::wrong_s(nm("Quire::to_bits vs to_bits"), &args, img_hex(&i1), img_hex(&i2)));
        }
        expect_bits(&nm("Quire::is_zero vs is_zero"), &args, q1.is_zero() as u64, guard(|| q2.t_is_zero() as u64))?;
        expect_bits(&nm("Quire::is_nar vs is_nar"), &args, q1.is_nar() as u64, guard(|| q2.t_is_nar() as u64))?;
        expect_bits(&nm("Quire::to_posit vs to_posit"), &args, q1.to_posit().tb(), guard(|| q2.t_to_posit().tb()))?;
        // posit <- quire: From<&Q>, From<Q> (by value, via a bit copy), Quire::to_posit vs to_posit
        expect_bits(&nm("P::from(&Q) vs to_posit"), &args, q1.to_posit().tb(), guard(|| q1.conv_to().tb()))?;
        // by value as well (`q.into()`): seeded C17-r4-m1 gave that impl its own body (hi + lo of into_two_posits)
        expect_bits(&nm("P::from(Q) vs to_posit"), &args, q1.to_posit().tb(), guard(|| q1.conv_to_val().tb()))?;
        let rt = Q::t_from_image(i1).image();
        if rt != i1 {
            return Err(Viol::wrong_s(nm("Quire::from_bits(to_bits)"), &args, img_hex(&i1), img_hex(&rt)));
        }
    }
    if steps.len() >= 2 {
        l.nontrivial(hash_args(Q::BITS as u64, &args));
    }
    l.sample(|| json!({"quire": Q::NAME, "steps": steps.len()}));
    Ok(())
}

/// posit <-> posit: From impl, from_* and to_* must agree with each other (no oracle)
pub fn width_spellings(src: usize, dst: usize, a: u64, l: &mut Local) -> Result<(), Viol> {
    use super::c08::{spellings, FMT};
    let sp = spellings(src, dst, a);
    l.evaln(sp.len() as u64);
    let base = sp[1].1.clone(); // the inherent from_* spelling
    for (name, r) in &sp {
        if *r != base {
            same(&format!("{} vs {}", name, sp[1].0), &format!("{}->{}", FMT[src].2, FMT[dst].2), &[a], base.clone(), r.clone())?;
        }
    }
    if a != 0 {
        l.nontrivial(hash_args((src * 3 + dst) as u64 + 500, &[a]));
    }
    Ok(())
}

fn fixed<P: Spell>(rep: &mut Report, triples: u64, prims: u64) {
    let (n, es) = (P::N, P::ES);
    rep.generated(&format!("{} posit-operand spellings (operators, op-assign, Into<prim>, num_traits Zero/One/Signed/ToPrimitive/Float)", P::NAME), triples, || gen::triple(n, es), |&(a, b, c), l| P::posit_ops(a, b, c, l));
    rep.generated(&format!("{} primitive-operand spellings (From<prim>, FromPrimitive, NumCast, Num::from_str_radix)", P::NAME), prims, || (gen::int64(), prop_oneof![gen::f64bits(), gen::f32bits().prop_map(|b| b as u64)]), |&(x, f), l| P::prim_ops(x, f, l));
    rep.lattice(&format!("{} constants and aliases (Zero, One, Float constants, FloatConst vs MathConsts, Bounded, P/Q aliases, AssociatedQuire)", P::NAME), 1, |_, l| P::consts(l));
}

pub fn run(rep: &mut Report) {
    let tier = rep.cfg.tier;
    rep.rule = "differential between spellings, no reference model: for generated operands each forwarding spelling (operator traits and op-assign forms, From/Into for the 12 primitive types, num_traits Zero, One, Num::from_str_radix, Signed, Float (every forwarded method; two stubs must fail alike), FloatConst, Bounded, FromPrimitive, ToPrimitive (the three implemented methods), NumCast, Quire trait methods driven in lock-step with the inherent quire methods over C04 histories, type aliases and AssociatedQuire) must return the same bits as the inherent operation. P8: all pairs; P16/P32: proptest triples / integer and float patterns. Non-trivial = real non-zero operands (posit spellings), every primitive case, history of >= 2 steps; distinct operands."
        .into();
    rep.assumptions = vec!["equality of spellings is judged on result bits (floats with NaN canonicalised); a panic counts as a result and must be the same on both sides".into()];
    super::run_corpus(rep, replay);
    rep.exhaustive("P8E0 all 2^16 pairs (c = a xor b) through every posit-operand spelling", 1 << 16, |i, l| P8E0::posit_ops(i >> 8, i & 0xff, (i >> 8) ^ (i & 0xff), l));
    fixed::<P8E0>(rep, tier.pick(20_000, 300_000), tier.pick(60_000, 2_000_000));
    fixed::<P16E1>(rep, tier.pick(200_000, 2_000_000), tier.pick(300_000, 2_000_000));
    fixed::<P32E2>(rep, tier.pick(200_000, 2_000_000), tier.pick(500_000, 4_000_000));
    let h = tier.pick(100_000, 600_000);
    rep.generated("Q8E0 lock-step: Quire trait vs inherent over generated histories", h, || history::<P8E0>(true, 16), |(s, p), l| quire_lockstep::<Q8E0>(s, *p, l));
    rep.generated("Q16E1 lock-step: Quire trait vs inherent over generated histories", h, || history::<P16E1>(true, 16), |(s, p), l| quire_lockstep::<Q16E1>(s, *p, l));
    rep.generated("Q32E2 lock-step: Quire trait vs inherent over generated histories", h, || history::<P32E2>(true, 16), |(s, p), l| quire_lockstep::<Q32E2>(s, *p, l));
    // tie-directed histories (threshold + one distant bit at a drawn depth): where two to_posit implementations can differ
    rep.generated("Q16E1 lock-step on tie-directed histories", h, || tie_history::<P16E1>(), |(s, p), l| quire_lockstep::<Q16E1>(s, *p, l));
    rep.generated("Q32E2 lock-step on tie-directed histories", h * 2, || tie_history::<P32E2>(), |(s, p), l| quire_lockstep::<Q32E2>(s, *p, l));
    // posit <-> posit spellings: complete P8/P16 sources, complete threshold lattices and a strided scan for P32 sources
    for &(s_, d_) in &[(0usize, 1usize), (0, 2)] {
        rep.exhaustive(&format!("{} -> {} spellings agree, all 256 sources", super::c08::FMT[s_].2, super::c08::FMT[d_].2), 1 << 8, move |i, l| width_spellings(s_, d_, i, l));
    }
    for &(s_, d_) in &[(1usize, 0usize), (1, 2)] {
        rep.exhaustive(&format!("{} -> {} spellings agree, all 65536 sources", super::c08::FMT[s_].2, super::c08::FMT[d_].2), 1 << 16, move |i, l| width_spellings(s_, d_, i, l));
    }
    for &(d_, tn, tes) in &[(0usize, 8u32, 0u32), (1, 16, 1)] {
        rep.lattice(&format!("P32E2 -> {} spellings agree: every {}-bit threshold mapped into P32, offsets -8..=8", super::c08::FMT[d_].2, tn + 1), (1u64 << tn) * 17, move |i, l| {
            let v = ((i / 17) << 1) | 1;
            let off = (i % 17) as i64 - 8;
            match crate::fastref::decode(tn + 1, tes, v) {
                Some(x) => width_spellings(2, d_, ((crate::fastref::encode(32, 2, x) as i64 + off) as u64) & 0xffff_ffff, l),
                None => Ok(()),
            }
        });
        let off = rep.cfg.seed % 16;
        rep.lattice(&format!("P32E2 -> {} spellings agree: every 16th pattern", super::c08::FMT[d_].2), 1 << 28, move |i, l| width_spellings(2, d_, i * 16 + off, l));
    }
    // products of the smallest magnitudes: states whose only non-zero bits are in the lowest limb
    let lat = super::c01::extreme_lattice(32, 27);
    let k = lat.len() as u64;
    rep.lattice(&format!("Q32E2 lock-step on single products of {} extreme-regime patterns", k), k * k, move |i, l| {
        quire_lockstep::<Q32E2>(&[Step { code: 0, p: [lat[(i / k) as usize], lat[(i % k) as usize], 0, 0] }], 0, l)
    });
}

pub fn replay(op: &str, args: &[u64]) -> Result<(), Viol> {
    let mut l = Local::new(false);
    let ty = op.split('.').next().unwrap_or("");
    if ty.contains("->") {
        // posit <-> posit spellings: "P32E2->P8E0.<spelling> vs <spelling>"
        let mut it = ty.split("->");
        let idx = |s: &str| super::c08::FMT.iter().position(|f| f.2 == s).unwrap_or(2);
        let (s, d) = (idx(it.next().unwrap_or("")), idx(it.next().unwrap_or("")));
        return if s == d { Ok(()) } else { width_spellings(s, d, arg(args, 0), &mut l) };
    }
    match ty {
        "Q8E0" | "Q16E1" | "Q32E2" => {
            let (steps, perm) = decode_history(args);
            match ty {
                "Q8E0" => quire_lockstep::<Q8E0>(&steps, perm, &mut l),
                "Q16E1" => quire_lockstep::<Q16E1>(&steps, perm, &mut l),
                _ => quire_lockstep::<Q32E2>(&steps, perm, &mut l),
            }
        }
        _ => {
            fn both<P: Spell>(args: &[u64], l: &mut Local) -> Result<(), Viol> {
                P::posit_ops(arg(args, 0), arg(args, 1), arg(args, 2), l)?;
                P::prim_ops(arg(args, 0), arg(args, 0), l)?;
                P::prim_ops(arg(args, 0), arg(args, 1), l)
            }
            match ty {
                "P8E0" => both::<P8E0>(args, &mut l),
                "P16E1" => both::<P16E1>(args, &mut l),
                _ => both::<P32E2>(args, &mut l),
            }
        }
    }
}
