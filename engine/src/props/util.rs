//! helpers shared by the property modules
#![allow(dead_code)]
use crate::core::*;
use crate::fastref as fr;
use crate::pt::PT;
use crate::refmodel::*;

#[inline]
pub fn dec<P: PT>(b: u64) -> Option<Dy> {
    decode(P::N, P::ES, b)
}
#[inline]
pub fn rnd<P: PT, E: Exact>(x: &E) -> u64 {
    round_posit(P::N, P::ES, x)
}
#[inline]
pub fn nar<P: PT>() -> u64 {
    1u64 << (P::N - 1)
}
#[inline]
pub fn fdec<P: PT>(b: u64) -> Option<fr::Fx> {
    fr::decode(P::N, P::ES, b)
}
#[inline]
pub fn fenc<P: PT>(x: fr::Fx) -> u64 {
    fr::encode(P::N, P::ES, x)
}
pub fn hex(b: u64) -> String {
    format!("{:#x}", b)
}
/// is the fast value exactly representable (encode/decode round trip)?
#[inline]
pub fn fast_exact(n: u32, es: u32, x: fr::Fx, enc: u64) -> bool {
    if x.sticky {
        return false;
    }
    match fr::decode(n, es, enc) {
        Some(b) => {
            let (b, x) = (b.norm(), x.norm());
            b.sig == x.sig && (b.sig == 0 || b.exp == x.exp) && (b.sig == 0 || b.neg == x.neg)
        }
        None => false,
    }
}

/// dispatch a generic function over the three fixed types by name
#[macro_export]
macro_rules! by_type {
    ($ty:expr, $f:ident ( $($a:expr),* )) => {
        match $ty {
            "P8E0" => $f::<softposit::P8E0>($($a),*),
            "P16E1" => $f::<softposit::P16E1>($($a),*),
            _ => $f::<softposit::P32E2>($($a),*),
        }
    };
}

/// parse "P32E2.mul_add.x" -> ("P32E2", "mul_add")
pub fn split_op(op: &str) -> (&str, &str) {
    let mut it = op.split('.');
    (it.next().unwrap_or(""), it.next().unwrap_or(""))
}

pub fn arg(args: &[u64], i: usize) -> u64 {
    args.get(i).copied().unwrap_or(0)
}

pub fn std_assumptions() -> Vec<String> {
    vec![
        "posit-standard (2022) rounding on the encoding is the meaning of 'the posit rule' (DESIGN.md 2.1)".into(),
        "refmodel.rs / fastref.rs are correct (cross-checked against each other and the Python Fraction vectors before every run)".into(),
    ]
}

/// round-half-even integer of an exact dyadic, clamped into [lo, hi] (as i128)
pub fn rne_clamped(x: &Dy, lo: i128, hi: i128) -> i128 {
    let (neg, m) = x.round_int_rne();
    if m.bitlen() > 100 {
        return if neg { lo } else { hi };
    }
    let v = m.low_u128() as i128;
    let v = if neg { -v } else { v };
    v.clamp(lo, hi)
}
#[allow(unused_imports)]
pub use crate::core::Viol as _Viol;
pub fn viol_kind(v: &Viol) -> &str {
    v.kind
}
