//! C13 — generic-width posits compute as N-bit posits for every N (DESIGN.md section 6, C13).
use super::util::*;
use crate::core::*;
use crate::gen;
use crate::px::PX;
use crate::refmodel::*;
use crate::with_n;
use proptest::prelude::*;
use serde_json::json;
use softposit::{P16E1, P32E2, PxE1, PxE2};

pub const OPS: [&str; 13] = ["add", "sub", "mul", "div", "add_assign", "sub_assign", "mul_assign", "div_assign", "mul_add", "mul_sub", "sub_product", "sqrt", "round"];

fn call<X: PX>(op: usize, a: u32, b: u32, c: u32) -> Option<u32> {
    let (pa, pb, pc) = (X::fb(a), X::fb(b), X::fb(c));
    Some(
        match op {
            0 => pa.op_add(pb),
            1 => pa.op_sub(pb),
            2 => pa.op_mul(pb),
            3 => pa.op_div(pb),
            4 => pa.op_add_assign(pb),
            5 => pa.op_sub_assign(pb),
            6 => pa.op_mul_assign(pb),
            7 => pa.op_div_assign(pb),
            8 => pa.mul_add(pb, pc),
            9 => pa.mul_sub(pb, pc),
            10 => pc.sub_product(pa, pb),
            11 => return pa.sqrt().map(|r| r.tb()),
            _ => pa.round(),
        }
        .tb(),
    )
}

/// exact expected N-bit pattern (right-aligned) and result class
pub fn want(n: u32, es: u32, op: usize, a: u64, b: u64, c: u64) -> (u64, Option<RClass>) {
    let nar = gen::nar(n);
    let (da, db, dc) = (decode(n, es, a), decode(n, es, b), decode(n, es, c));
    let r = |e: &dyn Fn() -> Option<(u64, RClass)>| e();
    let out = match op {
        0 | 4 => r(&|| {
            let e = da?.add(&db?);
            Some((round_posit(n, es, &e), classify(n, es, &e)))
        }),
        1 | 5 => r(&|| {
            let e = da?.sub(&db?);
            Some((round_posit(n, es, &e), classify(n, es, &e)))
        }),
        2 | 6 => r(&|| {
            let e = da?.mul(&db?);
            Some((round_posit(n, es, &e), classify(n, es, &e)))
        }),
        3 | 7 => r(&|| {
            let (x, y) = (da?, db?);
            if y.is_zero() {
                return None;
            }
            let e = Quot(x, y);
            Some((round_posit(n, es, &e), classify(n, es, &e)))
        }),
        8 => r(&|| {
            let e = da?.mul(&db?).add(&dc?);
            Some((round_posit(n, es, &e), classify(n, es, &e)))
        }),
        9 => r(&|| {
            let e = da?.mul(&db?).sub(&dc?);
            Some((round_posit(n, es, &e), classify(n, es, &e)))
        }),
        10 => r(&|| {
            let e = dc?.sub(&da?.mul(&db?));
            Some((round_posit(n, es, &e), classify(n, es, &e)))
        }),
        11 => r(&|| {
            let x = da?;
            if x.neg {
                return None;
            }
            if x.is_zero() {
                return Some((0, RClass::Zero));
            }
            let e = Sqrt(x);
            Some((round_posit(n, es, &e), classify(n, es, &e)))
        }),
        _ => r(&|| {
            let x = da?;
            let (ng, m) = x.round_int_rne();
            let e = Dy { neg: ng, mag: m, exp: 0 }.norm();
            // the nearest integer need not be representable in a narrow format: round it by the posit rule
            Some((round_posit(n, es, &e), classify(n, es, &e)))
        }),
    };
    match out {
        Some((w, c)) => (w, Some(c)),
        None => (nar, None),
    }
}

pub fn one<X: PX>(op: usize, a: u32, b: u32, c: u32, l: &mut Local) -> Result<(), Viol> {
    let (n, es) = (X::N, X::ES);
    let sh = 32 - n;
    let m = (gen::mask(n) as u32) << sh;
    let (a, b, c) = (a & m, b & m, c & m);
    if op == 11 && es == 1 {
        return Ok(()); // PxE1 has no sqrt
    }
    l.eval();
    let (w, class) = want(n, es, op, (a >> sh) as u64, (b >> sh) as u64, (c >> sh) as u64);
    let w32 = (w << sh) as u32;
    let args: Vec<u64> = match op {
        8..=10 => vec![a as u64, b as u64, c as u64],
        11 | 12 => vec![a as u64],
        _ => vec![a as u64, b as u64],
    };
    let got = guard(|| call::<X>(op, a, b, c).unwrap_or(0));
    if let Some(cl) = class {
        if !matches!(cl, RClass::Zero | RClass::Exact) {
            l.nontrivial(hash_args((n * 64 + es * 32) as u64 + op as u64, &args));
            if cl == RClass::Tie {
                l.label("res_tie");
                l.sample(|| json!({"type": X::name(), "op": OPS[op], "args": args.iter().map(|x| hex(*x)).collect::<Vec<_>>(), "result": hex(w32 as u64), "class": "tie"}));
            }
            if super::c01::reg_len(n, w) + 3 >= n {
                l.label("res_regime>=n-3");
            }
        }
    }
    expect_bits(&format!("{}.{}", X::name(), OPS[op]), &args, w32 as u64, got.map(|g| g as u64))
}

pub fn dispatch(es: u32, n: u32, op: usize, a: u32, b: u32, c: u32, l: &mut Local) -> Result<(), Viol> {
    if es == 1 {
        with_n!(n, N, one::<PxE1<N>>(op, a, b, c, l))
    } else {
        with_n!(n, N, one::<PxE2<N>>(op, a, b, c, l))
    }
}

/// cross-type differential (oracle-free): PxE2<32> == P32E2, PxE1<16> == P16E1 << 16
pub fn cross(a: u32, b: u32, c: u32, l: &mut Local) -> Result<(), Viol> {
    use crate::pt::PT;
    l.evaln(16);
    let (pa, pb, pc) = (P32E2::fb(a as u64), P32E2::fb(b as u64), P32E2::fb(c as u64));
    let fixed32: [u64; 8] = [pa.add(pb).tb(), pa.sub(pb).tb(), pa.mul(pb).tb(), pa.div(pb).tb(), pa.mul_add(pb, pc).tb(), pa.mul_sub(pb, pc).tb(), pc.sub_product(pa, pb).tb(), pa.sqrt().tb()];
    for (i, op) in [0usize, 1, 2, 3, 8, 9, 10, 11].iter().enumerate() {
        let got = guard(|| call::<PxE2<32>>(*op, a, b, c).unwrap_or(0) as u64);
        expect_bits(&format!("PxE2<32>.{} vs P32E2", OPS[*op]), &[a as u64, b as u64, c as u64], fixed32[i], got)?;
    }
    let (a16, b16, c16) = ((a >> 16) as u64, (b >> 16) as u64, (c >> 16) as u64);
    let (qa, qb, qc) = (P16E1::fb(a16), P16E1::fb(b16), P16E1::fb(c16));
    let fixed16: [u64; 7] = [qa.add(qb).tb(), qa.sub(qb).tb(), qa.mul(qb).tb(), qa.div(qb).tb(), qa.mul_add(qb, qc).tb(), qa.mul_sub(qb, qc).tb(), qc.sub_product(qa, qb).tb()];
    for (i, op) in [0usize, 1, 2, 3, 8, 9, 10].iter().enumerate() {
        let got = guard(|| call::<PxE1<16>>(*op, (a16 << 16) as u32, (b16 << 16) as u32, (c16 << 16) as u32).unwrap_or(0) as u64);
        expect_bits(&format!("PxE1<16>.{} vs P16E1<<16", OPS[*op]), &[a16 << 16, b16 << 16, c16 << 16], fixed16[i] << 16, got)?;
    }
    l.nontrivial(hash_args(999, &[a as u64, b as u64, c as u64]));
    Ok(())
}

fn triples(n: u32, es: u32) -> BoxedStrategy<(u32, u32, u32)> {
    let sh = 32 - n;
    prop_oneof![
        3 => gen::triple(n, es),
        1 => gen::tie_pair(n, es).prop_map(|(_, a, b)| (a, b, a)),
        1 => gen::result_pair(n, es).prop_map(|(_, a, b)| (a, b, b)),
        1 => gen::tie_triple(n, es),
        1 => gen::near_tie_triple(n, es),
        1 => gen::sparse_tie_triple(n, es),
        1 => gen::sparse_mul_pair(n, es).prop_map(|(a, b)| (a, b, 0)),
    ]
    .prop_map(move |(a, b, c)| ((a << sh) as u32, (b << sh) as u32, (c << sh) as u32))
    .boxed()
}

pub fn run(rep: &mut Report) {
    let tier = rep.cfg.tier;
    rep.rule = "operand tuples of left-aligned N-bit patterns (low 32-N bits zero) for every N in 2..=32 and es in {1,2}: + - * / (operator and op-assign forms), mul_add, mul_sub, sub_product, sqrt (PxE2), round against the exact result rounded to an N-bit posit (left-aligned, so the low 32-N result bits must be zero; NaR rules; round = nearest integer then posit rounding when the integer is not representable); N <= 6: all triples for the fused ops, N <= 8: all pairs; wider: proptest triples (bits x relation, tie-directed, result-directed) scaled to N. Cross-type differential: PxE2<32> == P32E2 and PxE1<16> == P16E1 << 16 on the same operands. Non-trivial = result tie / inexact / saturated; distinct (type, op, operands)."
        .into();
    rep.assumptions = std_assumptions();
    super::run_corpus(rep, replay);
    for es in 1..=2u32 {
        let (max_pairs, max_triples) = if tier == Tier::Thorough { (11u32, 8u32) } else { (8, 6) };
        for n in 2..=max_pairs {
            let k = 1u64 << n;
            let sh = 32 - n;
            rep.exhaustive(&format!("PxE{}<{}> all {} pairs: + - * / (both forms), sqrt, round", es, n, k * k), k * k, move |i, l| {
                let (a, b) = (((i / k) << sh) as u32, ((i % k) << sh) as u32);
                for op in 0..8 {
                    dispatch(es, n, op, a, b, 0, l)?;
                }
                if b == 0 {
                    dispatch(es, n, 11, a, 0, 0, l)?;
                    dispatch(es, n, 12, a, 0, 0, l)?;
                }
                Ok(())
            });
            if n <= max_triples {
                rep.exhaustive(&format!("PxE{}<{}> all {} triples: mul_add, mul_sub, sub_product", es, n, k * k * k), k * k * k, move |i, l| {
                    let (a, b, c) = (((i / (k * k)) << sh) as u32, (((i / k) % k) << sh) as u32, ((i % k) << sh) as u32);
                    for op in 8..11 {
                        dispatch(es, n, op, a, b, c, l)?;
                    }
                    Ok(())
                });
            }
        }
        for n in 7..=32u32 {
            // the wide types have the needles (lone sticky bits 60+ places down): twice the cases from N = 20 up
            let per = tier.pick(if n >= 20 { 80_000 } else { 40_000 }, 400_000);
            rep.generated(&format!("PxE{}<{}> generated triples, all ops", es, n), per, move || triples(n, es), move |&(a, b, c), l| {
                for op in 0..13 {
                    if n <= 8 && op < 8 {
                        continue; // covered completely above
                    }
                    dispatch(es, n, op, a, b, c, l)?;
                }
                Ok(())
            });
        }
    }
    rep.generated("cross-type: PxE2<32> vs P32E2 and PxE1<16> vs P16E1 on the same operands", tier.pick(100_000, 3_000_000), || triples(32, 2), |&(a, b, c), l| cross(a, b, c, l));
}

pub fn parse_ty(ty: &str) -> (u32, u32) {
    let es = if ty.starts_with("PxE1") { 1 } else { 2 };
    let n: u32 = ty.trim_end_matches('>').split('<').nth(1).and_then(|s| s.parse().ok()).unwrap_or(32);
    (es, n.clamp(2, 32))
}

pub fn replay(op: &str, args: &[u64]) -> Result<(), Viol> {
    let mut l = Local::new(false);
    let (ty, name) = split_op(op);
    if name.contains(" vs ") || op.contains(" vs ") {
        return cross(arg(args, 0) as u32, arg(args, 1) as u32, arg(args, 2) as u32, &mut l);
    }
    let (es, n) = parse_ty(ty);
    let opi = OPS.iter().position(|o| *o == name).unwrap_or(0);
    match opi {
        11 | 12 => dispatch(es, n, opi, arg(args, 0) as u32, 0, 0, &mut l),
        _ => dispatch(es, n, opi, arg(args, 0) as u32, arg(args, 1) as u32, arg(args, 2) as u32, &mut l),
    }
}

/// tooling: failure matrix per (family, op, N) — used to scope known findings
pub fn survey() -> i32 {
    use proptest::strategy::ValueTree;
    use proptest::test_runner::{Config, RngSeed, TestRunner};
    println!("failure % per N=2..32 (P = panics present, '.' = none)");
    for es in [2u32, 1] {
        for op in 0..13usize {
            if op >= 4 && op < 8 {
                continue;
            }
            let mut line = format!("PxE{} {:12}", es, OPS[op]);
            for n in 2..=32u32 {
                let mut runner = TestRunner::new(Config { rng_seed: RngSeed::Fixed(42 + n as u64), ..Config::default() });
                let st = triples(n, es);
                let (mut bad, mut pan, tot) = (0, 0, 4000);
                let mut l = Local::new(false);
                for _ in 0..tot {
                    let (a, b, c) = st.new_tree(&mut runner).unwrap().current();
                    if let Err(v) = dispatch(es, n, op, a, b, c, &mut l) {
                        bad += 1;
                        if v.kind == "panic" {
                            pan += 1;
                        }
                    }
                }
                if bad == 0 {
                    line += "   . ";
                } else {
                    line += &format!(" {:3}{}", (bad * 100 + tot - 1) / tot, if pan > 0 { "P" } else { " " });
                }
            }
            println!("{}", line);
        }
    }
    0
}

/// tooling: print distinct failure signatures of one (family, N, op) cell
pub fn probe(es: u32, n: u32, opname: &str) -> i32 {
    use proptest::strategy::ValueTree;
    use proptest::test_runner::{Config, RngSeed, TestRunner};
    let op = OPS.iter().position(|o| *o == opname).unwrap_or(0);
    let mut runner = TestRunner::new(Config { rng_seed: RngSeed::Fixed(7), ..Config::default() });
    let st = triples(n, es);
    let mut l = Local::new(false);
    let mut seen = std::collections::BTreeMap::new();
    for _ in 0..20000 {
        let (a, b, c) = st.new_tree(&mut runner).unwrap().current();
        if let Err(v) = dispatch(es, n, op, a, b, c, &mut l) {
            let key = if v.kind == "panic" { v.got.clone() } else { "wrong".to_string() };
            let e = seen.entry(key).or_insert((0, String::new()));
            e.0 += 1;
            if e.1.is_empty() {
                e.1 = format!("{:x?} want={} got={}", v.args, v.want, v.got);
            }
        }
    }
    for (k, (n, ex)) in seen {
        println!("{:6} {} | e.g. {}", n, k, ex);
    }
    0
}
