//! C18 — polynomial evaluation equals its fused-dot-product definition (DESIGN.md section 6, C18).
use super::util::*;
use crate::core::*;
use crate::gen;
use crate::pt::PT;
use crate::refmodel::*;
use proptest::prelude::*;
use serde_json::json;
use softposit::{Polynom, P16E1, P32E2, P8E0};

/// names in the order of the `which` index
pub const POLYS: [&str; 20] = ["poly1", "poly2", "poly3", "poly4", "poly5", "poly6", "poly7", "poly8", "poly9", "poly10", "poly11", "poly12", "poly13", "poly14", "poly15", "poly16", "poly17", "poly18", "poly3a", "poly4a"];
pub fn ncoef(which: usize) -> usize {
    match which {
        18 => 4,
        19 => 5,
        w => w + 2,
    }
}

type Coef = Vec<Option<Dy>>; // a coefficient is the (unevaluated) sum of its parts

/// one quire stage: round( lead * x^k + c[0] * x^(k-1) + ... + c[k-1] * 1 ), k = c.len()
fn stage<P: PT>(pows: &[Option<Dy>; 5], lead: &Coef, c: &[Coef]) -> Option<Dy> {
    let k = c.len();
    let mut s = Dy::ZERO;
    let mut add = |co: &Coef, pw: &Option<Dy>| -> Option<()> {
        let pw = pw.as_ref()?;
        for part in co {
            s = s.add(&part.as_ref()?.mul(pw));
        }
        Some(())
    };
    // NaR anywhere in the stage poisons it — but every term must be visited to decide that
    let mut ok = add(lead, &pows[k]).is_some();
    for (i, co) in c.iter().enumerate() {
        ok &= add(co, &pows[k - 1 - i]).is_some();
    }
    if !ok {
        return None;
    }
    decode(P::N, P::ES, round_posit(P::N, P::ES, &s))
}

/// documented staging of poly<n>k: blocks applied from the highest coefficients down
fn polyk<P: PT>(n: usize, pows: &[Option<Dy>; 5], lead: &Coef, c: &[Coef]) -> Option<Dy> {
    debug_assert_eq!(c.len(), n);
    match n {
        1..=4 => stage::<P>(pows, lead, c),
        5 => {
            let p = stage::<P>(pows, lead, &c[..2]);
            stage::<P>(pows, &vec![p], &c[2..])
        }
        6 => {
            let p = stage::<P>(pows, lead, &c[..3]);
            stage::<P>(pows, &vec![p], &c[3..])
        }
        7 => {
            let p = stage::<P>(pows, lead, &c[..3]);
            stage::<P>(pows, &vec![p], &c[3..])
        }
        8 => {
            let p = stage::<P>(pows, lead, &c[..4]);
            stage::<P>(pows, &vec![p], &c[4..])
        }
        _ => {
            let p = polyk::<P>(n - 4, pows, lead, &c[..n - 4]);
            stage::<P>(pows, &vec![p], &c[n - 4..])
        }
    }
}

pub fn want<P: PT>(which: usize, x: u64, coefs: &[Vec<u64>]) -> u64 {
    let dx = dec::<P>(x);
    let one = Some(Dy::new(false, 1, 0));
    let rp = |d: Option<Dy>| -> Option<Dy> { d.and_then(|v| decode(P::N, P::ES, round_posit(P::N, P::ES, &v))) };
    let x2 = rp(dx.map(|v| v.mul(&v)));
    let x3 = rp(match (&x2, &dx) {
        (Some(a), Some(b)) => Some(a.mul(b)),
        _ => None,
    });
    let x4 = rp(x2.map(|v| v.mul(&v)));
    let pows = [one, dx, x2, x3, x4];
    let c: Vec<Coef> = coefs.iter().map(|parts| parts.iter().map(|&b| dec::<P>(b)).collect()).collect();
    let r = match which {
        18 => {
            // poly3a: stage1(c0,[c1]) then stage2(p, c[2..4])
            let p = stage::<P>(&pows, &c[0], &c[1..2]);
            stage::<P>(&pows, &vec![p], &c[2..4])
        }
        19 => {
            let p = stage::<P>(&pows, &c[0], &c[1..3]);
            stage::<P>(&pows, &vec![p], &c[3..5])
        }
        w => polyk::<P>(w + 1, &pows, &c[0], &c[1..]),
    };
    match r {
        Some(d) => rnd::<P, _>(&d),
        None => nar::<P>(),
    }
}

macro_rules! call_with {
    ($tr:path, $which:expr, $get:expr; $x:expr) => {
        match $which {
            0 => <P as $tr>::poly1($x, &core::array::from_fn(|i| $get(i))),
            1 => <P as $tr>::poly2($x, &core::array::from_fn(|i| $get(i))),
            2 => <P as $tr>::poly3($x, &core::array::from_fn(|i| $get(i))),
            3 => <P as $tr>::poly4($x, &core::array::from_fn(|i| $get(i))),
            4 => <P as $tr>::poly5($x, &core::array::from_fn(|i| $get(i))),
            5 => <P as $tr>::poly6($x, &core::array::from_fn(|i| $get(i))),
            6 => <P as $tr>::poly7($x, &core::array::from_fn(|i| $get(i))),
            7 => <P as $tr>::poly8($x, &core::array::from_fn(|i| $get(i))),
            8 => <P as $tr>::poly9($x, &core::array::from_fn(|i| $get(i))),
            9 => <P as $tr>::poly10($x, &core::array::from_fn(|i| $get(i))),
            10 => <P as $tr>::poly11($x, &core::array::from_fn(|i| $get(i))),
            11 => <P as $tr>::poly12($x, &core::array::from_fn(|i| $get(i))),
            12 => <P as $tr>::poly13($x, &core::array::from_fn(|i| $get(i))),
            13 => <P as $tr>::poly14($x, &core::array::from_fn(|i| $get(i))),
            14 => <P as $tr>::poly15($x, &core::array::from_fn(|i| $get(i))),
            15 => <P as $tr>::poly16($x, &core::array::from_fn(|i| $get(i))),
            16 => <P as $tr>::poly17($x, &core::array::from_fn(|i| $get(i))),
            17 => <P as $tr>::poly18($x, &core::array::from_fn(|i| $get(i))),
            18 => <P as $tr>::poly3a($x, &core::array::from_fn(|i| $get(i))),
            _ => <P as $tr>::poly4a($x, &core::array::from_fn(|i| $get(i))),
        }
    };
}

pub trait PolyT: PT {
    fn call_poly(which: usize, x: u64, coefs: &[Vec<u64>], arity: usize) -> u64;
}
macro_rules! impl_polyt {
    ($P:ty) => {
        impl PolyT for $P {
            fn call_poly(which: usize, x: u64, coefs: &[Vec<u64>], arity: usize) -> u64 {
                type P = $P;
                let px = <P as PT>::fb(x);
                let f = |b: u64| <P as PT>::fb(b);
                match arity {
                    1 => call_with!(Polynom<P>, which, |i: usize| f(coefs[i][0]); px),
                    2 => call_with!(Polynom<[P; 2]>, which, |i: usize| [f(coefs[i][0]), f(coefs[i][1])]; px),
                    _ => call_with!(Polynom<[P; 3]>, which, |i: usize| [f(coefs[i][0]), f(coefs[i][1]), f(coefs[i][2])]; px),
                }
                .tb()
            }
        }
    };
}
impl_polyt!(P8E0);
impl_polyt!(P16E1);
impl_polyt!(P32E2);

fn call<P: PolyT>(which: usize, x: u64, coefs: &[Vec<u64>], arity: usize) -> u64 {
    P::call_poly(which, x, coefs, arity)
}

/// args layout: [which, arity, x, coefficient words...]
pub fn one<P: PolyT>(which: usize, arity: usize, x: u64, flat: &[u64], l: &mut Local) -> Result<(), Viol> {
    let k = ncoef(which);
    let coefs: Vec<Vec<u64>> = (0..k).map(|i| (0..arity).map(|j| flat[(i * arity + j) % flat.len()]).collect()).collect();
    l.eval();
    let w = want::<P>(which, x, &coefs);
    let got = guard(|| call::<P>(which, x, &coefs, arity));
    let mut args = vec![which as u64, arity as u64, x];
    for c in &coefs {
        args.extend_from_slice(c);
    }
    let nz = coefs.iter().filter(|c| c.iter().any(|&b| b != 0)).count();
    if x != 0 && x != nar::<P>() && x != (1u64 << (P::N - 2)) && x != (3u64 << (P::N - 2)) && nz >= 2 && w != nar::<P>() {
        l.nontrivial(hash_args(P::N as u64, &args));
    }
    if w == nar::<P>() {
        l.label("result_NaR");
    }
    l.label(if arity == 1 { "T=P" } else { "T=[P;k]" });
    l.sample(|| json!({"type": P::NAME, "poly": POLYS[which], "arity": arity, "x": hex(x), "coefficients": coefs.iter().map(|c| c.iter().map(|b| hex(*b)).collect::<Vec<_>>()).collect::<Vec<_>>(), "result": hex(w)}));
    expect_bits(&format!("{}.{}", P::NAME, POLYS[which]), &args, w, got)
}

fn case_strategy(n: u32) -> BoxedStrategy<(u64, Vec<u64>, u8)> {
    let coef = move || {
        prop_oneof![
            6 => gen::real_bits(n),
            2 => Just(0u64),
            1 => gen::bits(n),
        ]
    };
    let x = move || prop_oneof![8 => gen::real_bits(n), 1 => gen::bits(n)];
    // powers of two everywhere: sums of a few single bits, i.e. exact ties and "tie + one distant bit"
    let es = if n == 8 { 0 } else if n == 16 { 1 } else { 2 };
    let ms = gen::max_scale(n, es);
    let p2 = move || (-(ms / 2)..=(ms / 2), any::<bool>(), 0u8..8).prop_map(move |(s, neg, z)| if z == 0 { 0 } else { gen::make(n, es, neg, s, 0) });
    prop_oneof![
        3 => (x(), proptest::collection::vec(coef(), 57), 0u8..4),
        1 => (p2(), proptest::collection::vec(p2(), 57), 0u8..4),
    ]
    .boxed()
}

fn section<P: PolyT>(rep: &mut Report, cases: u64) {
    rep.generated(&format!("{} x and coefficient arrays, all 20 polynomials, T = P / [P;2] / [P;3]", P::NAME), cases, || case_strategy(P::N), |(x, flat, ar), l| {
        let arity = match ar {
            0 | 1 => 1,
            2 => 2,
            _ => 3,
        };
        for which in 0..20 {
            one::<P>(which, arity, *x, flat, l)?;
        }
        Ok(())
    });
}

/// cancellation-directed: single-stage polynomials whose constant term is minus the rounded sum of
/// the other terms, so that the exact result is the tiny residual — every bit the accumulation loses shows
fn cancel_section<P: PolyT>(rep: &mut Report, cases: u64) {
    rep.generated(&format!("{} cancellation-directed poly1..4 (constant term = -round(rest))", P::NAME), cases, || (gen::real_bits(P::N), proptest::collection::vec(gen::real_bits(P::N), 8), 0usize..4, -2i64..=2), |(x, cs, which, d), l| {
        let k = ncoef(*which);
        let mut coefs: Vec<Vec<u64>> = (0..k).map(|i| vec![cs[i]]).collect();
        coefs[k - 1] = vec![0];
        let rest = want::<P>(*which, *x, &coefs);
        if rest == nar::<P>() {
            return Ok(());
        }
        let m = gen::mask(P::N);
        let c_last = ((rest.wrapping_neg() as i64).wrapping_add(*d) as u64) & m;
        if c_last == nar::<P>() {
            return Ok(());
        }
        let mut flat: Vec<u64> = cs[..k - 1].to_vec();
        flat.push(c_last);
        l.label("cancellation_directed");
        one::<P>(*which, 1, *x, &flat, l)
    });
}

pub fn run(rep: &mut Report) {
    let tier = rep.cfg.tier;
    rep.rule = "x and coefficient arrays (highest degree first; coefficient type P or the unevaluated sums [P;2], [P;3]); all of poly1..poly18, poly3a, poly4a per case. Oracle: x^2 = round(x*x), x^3 = round(x^2*x), x^4 = round(x^2*x^2) with the reference rounding; a stage is the exact dyadic sum of coefficient*power rounded once; poly1..4 are one stage, poly5..18/3a/4a chain stages as documented (5=[2,3], 6=[3,3], 7=[3,4], 8=[4,4], n>=9 = poly(n-4) then a 4-block, 3a=[1,2], 4a=[2,2], each later stage taking the previous result as leading coefficient); NaR anywhere gives NaR. P8 additionally: every x with seeded coefficient arrays. Non-trivial = x not in {0, +-1, NaR}, >= 2 non-zero coefficients, real result; distinct (poly, x, coefficients)."
        .into();
    rep.assumptions = {
        let mut a = std_assumptions();
        a.push("the block structure of poly5..18 / poly3a / poly4a mirrors the crate's documented construction (DESIGN.md section 8)".into());
        a
    };
    super::run_corpus(rep, replay);
    let g = tier.pick(200_000, 1_200_000);
    section::<P8E0>(rep, g);
    section::<P16E1>(rep, g);
    section::<P32E2>(rep, g);
    cancel_section::<P8E0>(rep, g / 2);
    cancel_section::<P16E1>(rep, g);
    cancel_section::<P32E2>(rep, g * 2);
    // P8: all x with coefficient arrays derived from the seed
    let seed = rep.cfg.seed;
    let sets = tier.pick(64, 2048);
    rep.lattice(&format!("P8E0 every x (256) x {} seeded coefficient arrays x 20 polynomials", sets), 256 * sets, move |i, l| {
        let (x, s) = (i & 0xff, i >> 8);
        let flat: Vec<u64> = (0..57).map(|j| {
            let r = splitmix(seed ^ (s << 8) ^ (j as u64) << 40);
            let b = r & 0xff;
            if b == 0x80 || r >> 60 == 0 { 0 } else { b }
        }).collect();
        for which in 0..20 {
            one::<P8E0>(which, 1 + (s % 2) as usize, x, &flat, l)?;
        }
        Ok(())
    });
}

pub fn replay(op: &str, args: &[u64]) -> Result<(), Viol> {
    let mut l = Local::new(false);
    let (ty, _) = split_op(op);
    let which = arg(args, 0) as usize % 20;
    let arity = (arg(args, 1) as usize).clamp(1, 3);
    let x = arg(args, 2);
    let flat: Vec<u64> = if args.len() > 3 { args[3..].to_vec() } else { vec![0] };
    match ty {
        "P8E0" => one::<P8E0>(which, arity, x, &flat, &mut l),
        "P16E1" => one::<P16E1>(which, arity, x, &flat, &mut l),
        _ => one::<P32E2>(which, arity, x, &flat, &mut l),
    }
}
