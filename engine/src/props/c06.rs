//! C06 — square root correctly rounded (DESIGN.md section 6, C06).
use super::util::*;
use crate::core::*;
use crate::fastref as fr;
use crate::gen;
use crate::pt::PT;
use crate::refmodel::*;
use proptest::prelude::*;
use serde_json::json;
use softposit::{P16E1, P32E2, P8E0};

pub fn sqrt_slow<P: PT>(a: u64, l: &mut Local) -> Result<(), Viol> {
    l.eval();
    let want = match dec::<P>(a) {
        None => nar::<P>(),
        Some(x) if x.neg => nar::<P>(),
        Some(x) if x.is_zero() => 0,
        Some(x) => {
            let e = Sqrt(x);
            let w = rnd::<P, _>(&e);
            let c = classify(P::N, P::ES, &e);
            if c != RClass::Exact {
                l.nontrivial(a);
                l.label(if c == RClass::Tie { "res_tie" } else { "res_inexact" });
            } else {
                l.label("perfect_square");
            }
            l.sample(|| json!({"type": P::NAME, "a": hex(a), "sqrt": hex(w)}));
            w
        }
    };
    expect_bits(&format!("{}.sqrt", P::NAME), &[a], want, guard(|| P::fb(a).sqrt().tb()))
}

#[inline]
pub fn sqrt_fast<P: PT>(a: u64, l: &mut Local) -> Result<(), Viol> {
    l.eval();
    let want = match fdec::<P>(a) {
        None => nar::<P>(),
        Some(x) if x.neg => nar::<P>(),
        Some(x) if x.sig == 0 => 0,
        Some(x) => {
            let r = fr::sqrt(x);
            if r.sticky {
                l.nontrivial(a);
            }
            fenc::<P>(r)
        }
    };
    let got = guard(|| P::fb(a).sqrt().tb());
    if got.as_ref().ok() != Some(&want) {
        return expect_bits(&format!("{}.sqrt", P::NAME), &[a], want, got);
    }
    Ok(())
}

/// P32 inputs next to perfect squares and to squares of rounding thresholds
fn directed32() -> BoxedStrategy<u64> {
    prop_oneof![
        // square of a 33-bit threshold (or of a 32-bit posit), rounded to P32, and its neighbours
        (gen::bits(33), -2i64..=2, any::<bool>()).prop_map(|(v, d, thr)| {
            let v = if thr { v | 1 } else { v & !1 } & gen::mask(33) & !(1u64 << 32);
            match fr::decode(33, 2, v) {
                Some(x) if x.sig != 0 => {
                    let sq = fr::encode(32, 2, fr::mul(x, x));
                    (sq as i64 + d) as u64 & 0x7fff_ffff
                }
                _ => 0x4000_0000,
            }
        }),
        gen::bits(32),
    ]
    .boxed()
}

pub fn run(rep: &mut Report) {
    let tier = rep.cfg.tier;
    rep.rule = "every input pattern a: sqrt(a) compared with the posit rounding of the exact square root, decided by exact comparison of a with t^2 (NaR for NaR / negative, 0 for 0). P8, P16: all patterns. P32: all 2^32 patterns against the fast oracle in both tiers, plus proptest inputs (squares of thresholds and of posits +-2 ulp, structured bits) against the exact oracle. Non-trivial = positive input whose root is not representable; distinct inputs."
        .into();
    rep.assumptions = std_assumptions();
    rep.complete = true; // P8, P16 and P32 are each enumerated completely below
    super::run_corpus(rep, replay);
    rep.exhaustive("P8E0 all 256 inputs", 1 << 8, |i, l| sqrt_slow::<P8E0>(i, l));
    rep.exhaustive("P16E1 all 65536 inputs", 1 << 16, |i, l| sqrt_slow::<P16E1>(i, l));
    match tier {
        Tier::Quick => {
            rep.generated("P32E2 directed inputs (threshold^2, posit^2 +-2ulp, structured bits), exact oracle", 600_000, directed32, |&a, l| sqrt_slow::<P32E2>(a, l));
            // complete: a defect confined to a handful of the 2^32 patterns (seeded C06-r2-m1: four inputs) is
            // out of reach of any sampling; the negative half costs almost nothing (NaR on both sides)
            rep.exhaustive("P32E2 all 2^32 inputs (fast oracle)", 1 << 32, |i, l| sqrt_fast::<P32E2>(i, l));
        }
        Tier::Thorough => {
            rep.generated("P32E2 directed inputs (threshold^2, posit^2 +-2ulp, structured bits), exact oracle", 6_000_000, directed32, |&a, l| sqrt_slow::<P32E2>(a, l));
            rep.exhaustive("P32E2 all 2^32 inputs (fast oracle)", 1 << 32, |i, l| sqrt_fast::<P32E2>(i, l));
        }
    }
}

pub fn replay(op: &str, args: &[u64]) -> Result<(), Viol> {
    let mut l = Local::new(false);
    let (ty, _) = split_op(op);
    let a = arg(args, 0);
    match ty {
        "P8E0" => sqrt_slow::<P8E0>(a, &mut l),
        "P16E1" => sqrt_slow::<P16E1>(a, &mut l),
        _ => sqrt_slow::<P32E2>(a, &mut l),
    }
}
