//! C16 — every implemented operation is total and build-profile independent (DESIGN.md section 6, C16).
//!
//! One op registry (built identically by both builds of this crate) lists the public operations.
//! The overflow-checked binary evaluates each generated case under `guard` (a panic is a violation
//! unless it is an explicit `todo!()` stub); cases that returned are sent in batches to the plain
//! optimised binary (`vcheck --serve`, same sources, same registry) whose result bits must be identical.
//! A watchdog turns a case that does not return into `kind=hang`.
use super::util::*;
use crate::core::*;
use crate::gen;
use crate::pt::{PT, QT};
use crate::px::{PX, PXC};
use crate::with_n;
use proptest::prelude::*;
use serde_json::json;
use softposit::{P16E1, P32E2, P8E0, PxE1, PxE2, Q16E1, Q32E2, Q8E0};
use std::io::{Read, Write};
use std::sync::atomic::{AtomicU64, Ordering};
use std::sync::{Mutex, OnceLock};

#[derive(Clone, Copy, PartialEq, Debug)]
pub enum Arg {
    /// posit pattern of width n (right-aligned)
    P(u32),
    /// generic-width posit pattern, left-aligned in 32 bits
    Px(u32),
    F64,
    F32,
    I64,
    /// small signed integer (powi exponent)
    Small,
    /// quire image: k words
    Img(u32),
    /// up to 16 bytes of text in two words
    Text,
}

pub struct Op {
    pub name: String,
    pub args: Vec<Arg>,
    pub f: Box<dyn Fn(&[u64]) -> u64 + Send + Sync>,
}

fn mix(a: u64, b: u64) -> u64 {
    splitmix(a ^ b.rotate_left(32))
}
fn fb64(f: f64) -> u64 {
    if f.is_nan() { 0x7ff8_0000_0000_0000 } else { f.to_bits() }
}
fn fb32(f: f32) -> u64 {
    if f.is_nan() { 0x7fc0_0000 } else { f.to_bits() as u64 }
}
fn text_of(a: u64, b: u64) -> String {
    const ALPHA: &[u8] = b"0123456789.eE-+naNiRf _x";
    let len = (a & 0xf) as usize;
    let mut s = String::new();
    let mut w = (a >> 4) ^ b.rotate_left(17);
    for i in 0..len {
        if i == 8 {
            w = b;
        }
        s.push(ALPHA[(w % ALPHA.len() as u64) as usize] as char);
        w /= ALPHA.len() as u64;
    }
    s
}

/// elementary functions of the fixed types that are not in `PT`
pub trait Elem: PT {
    fn reg_elem(v: &mut Vec<Op>);
}
macro_rules! impl_elem {
    ($P:ty, [$($un:ident),*], [$($bin:ident),*]) => {
        impl Elem for $P {
            fn reg_elem(v: &mut Vec<Op>) {
                let n = <$P as PT>::N;
                let nm = <$P as PT>::NAME;
                $( v.push(Op { name: format!("{}.{}", nm, stringify!($un)), args: vec![Arg::P(n)], f: Box::new(|a| <$P as PT>::tb(<$P>::$un(<$P as PT>::fb(a[0])))) }); )*
                $( v.push(Op { name: format!("{}.{}", nm, stringify!($bin)), args: vec![Arg::P(n), Arg::P(n)], f: Box::new(|a| <$P as PT>::tb(<$P>::$bin(<$P as PT>::fb(a[0]), <$P as PT>::fb(a[1])))) }); )*
                v.push(Op { name: format!("{}.powi", nm), args: vec![Arg::P(n), Arg::Small], f: Box::new(|a| <$P as PT>::tb(<$P>::powi(<$P as PT>::fb(a[0]), a[1] as i32))) });
                v.push(Op { name: format!("{}.sin_cos", nm), args: vec![Arg::P(n)], f: Box::new(|a| { let (s, c) = <$P>::sin_cos(<$P as PT>::fb(a[0])); mix(<$P as PT>::tb(s), <$P as PT>::tb(c)) }) });
                v.push(Op { name: format!("{}.FromStr", nm), args: vec![Arg::Text], f: Box::new(|a| match text_of(a[0], a[1]).parse::<$P>() { Ok(p) => <$P as PT>::tb(p), Err(_) => u64::MAX }) });
                v.push(Op { name: format!("{}.Display", nm), args: vec![Arg::P(n)], f: Box::new(|a| hash_str(&format!("{} {:?}", <$P as PT>::fb(a[0]), <$P as PT>::fb(a[0])))) });
            }
        }
    };
}
impl_elem!(P8E0, [acos, acosh, asin, asinh, atan, atanh, cbrt, cos, cosh, exp, exp2, exp_m1, ln, ln_1p, log10, log2, recip, sin, sinh, tan, tanh], [atan2, div_euclid, hypot, log, powf, rem_euclid]);
impl_elem!(P16E1, [acos, acosh, asin, asinh, atan, atanh, cbrt, cos, cosh, exp, exp2, exp_m1, ln, ln_1p, log10, log2, recip, sin, sinh, tan, tanh, sin_pi, cos_pi, tan_pi, asin_pi, acos_pi, atan_pi, to_degrees, to_radians], [atan2, div_euclid, hypot, log, powf, rem_euclid]);
impl_elem!(P32E2, [acos, acosh, asin, asinh, atan, atanh, cbrt, cos, cosh, exp, exp2, exp10, exp_m1, ln, ln_1p, log10, log2, recip, sin, sinh, tan, tanh, to_degrees, to_radians], [atan2, div_euclid, hypot, log, powf, rem_euclid]);

fn reg_fixed<P: Elem>(v: &mut Vec<Op>) {
    let n = P::N;
    let nm = P::NAME;
    macro_rules! un {
        ($name:expr, $f:expr) => {
            v.push(Op { name: format!("{}.{}", nm, $name), args: vec![Arg::P(n)], f: Box::new(move |a| $f(P::fb(a[0]))) });
        };
    }
    macro_rules! bin {
        ($name:expr, $f:expr) => {
            v.push(Op { name: format!("{}.{}", nm, $name), args: vec![Arg::P(n), Arg::P(n)], f: Box::new(move |a| $f(P::fb(a[0]), P::fb(a[1]))) });
        };
    }
    bin!("add", |a: P, b: P| a.add(b).tb());
    bin!("sub", |a: P, b: P| a.sub(b).tb());
    bin!("mul", |a: P, b: P| a.mul(b).tb());
    bin!("div", |a: P, b: P| a.div(b).tb());
    bin!("rem", |a: P, b: P| a.rem(b).tb());
    bin!("+", |a: P, b: P| a.op_add(b).tb());
    bin!("-", |a: P, b: P| a.op_sub(b).tb());
    bin!("*", |a: P, b: P| a.op_mul(b).tb());
    bin!("/", |a: P, b: P| a.op_div(b).tb());
    bin!("%", |a: P, b: P| a.op_rem(b).tb());
    bin!("+=", |a: P, b: P| a.op_add_assign(b).tb());
    bin!("-=", |a: P, b: P| a.op_sub_assign(b).tb());
    bin!("*=", |a: P, b: P| a.op_mul_assign(b).tb());
    bin!("/=", |a: P, b: P| a.op_div_assign(b).tb());
    bin!("%=", |a: P, b: P| a.op_rem_assign(b).tb());
    un!("neg", |a: P| a.neg().tb());
    un!("-x", |a: P| a.op_neg().tb());
    v.push(Op { name: format!("{}.mul_add", nm), args: vec![Arg::P(n); 3], f: Box::new(|a| P::fb(a[0]).mul_add(P::fb(a[1]), P::fb(a[2])).tb()) });
    v.push(Op { name: format!("{}.mul_sub", nm), args: vec![Arg::P(n); 3], f: Box::new(|a| P::fb(a[0]).mul_sub(P::fb(a[1]), P::fb(a[2])).tb()) });
    v.push(Op { name: format!("{}.sub_product", nm), args: vec![Arg::P(n); 3], f: Box::new(|a| P::fb(a[0]).sub_product(P::fb(a[1]), P::fb(a[2])).tb()) });
    un!("sqrt", |a: P| a.sqrt().tb());
    un!("round", |a: P| a.round().tb());
    un!("floor", |a: P| a.floor().tb());
    un!("ceil", |a: P| a.ceil().tb());
    un!("trunc", |a: P| a.trunc().tb());
    un!("fract", |a: P| a.fract().tb());
    un!("to_f32", |a: P| fb32(a.to_f32()));
    un!("to_f64", |a: P| fb64(a.to_f64()));
    un!("to_i32", |a: P| a.to_i32() as u32 as u64);
    un!("to_u32", |a: P| a.to_u32() as u64);
    un!("to_i64", |a: P| a.to_i64() as u64);
    un!("to_u64", |a: P| a.to_u64());
    un!("abs", |a: P| a.abs().tb());
    un!("signum", |a: P| a.signum().tb());
    un!("classify", |a: P| a.classify() as u64 | (a.is_zero() as u64) << 8 | (a.is_nar() as u64) << 9 | (a.is_sign_negative() as u64) << 10 | (a.is_finite() as u64) << 11);
    bin!("copysign", |a: P, b: P| a.copysign(b).tb());
    bin!("cmp", |a: P, b: P| a.cmp(b) as i8 as u8 as u64 | (a.lt(b) as u64) << 8 | (a.le(b) as u64) << 9 | (a.op_eq(b) as u64) << 10 | (a.op_partial_cmp(b).is_some() as u64) << 11);
    bin!("min", |a: P, b: P| mix(a.min(b).tb(), a.ord_min(b).tb()));
    bin!("max", |a: P, b: P| mix(a.max(b).tb(), a.ord_max(b).tb()));
    v.push(Op { name: format!("{}.from_f64", nm), args: vec![Arg::F64], f: Box::new(|a| mix(P::from_f64(f64::from_bits(a[0])).tb(), P::conv_from_f64(f64::from_bits(a[0])).tb())) });
    v.push(Op { name: format!("{}.from_f32", nm), args: vec![Arg::F32], f: Box::new(|a| mix(P::from_f32(f32::from_bits(a[0] as u32)).tb(), P::conv_from_f32(f32::from_bits(a[0] as u32)).tb())) });
    v.push(Op { name: format!("{}.from_i32", nm), args: vec![Arg::I64], f: Box::new(|a| mix(P::from_i32(a[0] as i32).tb(), P::from_i8(a[0] as i8).tb() ^ P::from_i16(a[0] as i16).tb() << 20)) });
    v.push(Op { name: format!("{}.from_u32", nm), args: vec![Arg::I64], f: Box::new(|a| mix(P::from_u32(a[0] as u32).tb(), P::from_u8(a[0] as u8).tb() ^ P::from_u16(a[0] as u16).tb() << 20)) });
    v.push(Op { name: format!("{}.from_i64", nm), args: vec![Arg::I64], f: Box::new(|a| mix(P::from_i64(a[0] as i64).tb(), P::from_isize(a[0] as i64 as isize).tb())) });
    v.push(Op { name: format!("{}.from_u64", nm), args: vec![Arg::I64], f: Box::new(|a| mix(P::from_u64(a[0]).tb(), P::from_usize(a[0] as usize).tb())) });
    P::reg_elem(v);
}

fn img(a: &[u64], k: usize) -> [u64; 8] {
    let mut i = [0u64; 8];
    for j in 0..k {
        i[8 - k + j] = a[j];
    }
    if k == 1 {
        i[7] &= 0xffff_ffff;
    }
    i
}
fn himg(i: [u64; 8]) -> u64 {
    i.iter().fold(0x1234, |h, w| mix(h, *w))
}
fn reg_quire<Q: QT>(v: &mut Vec<Op>) {
    let k = (Q::BITS / 64).max(1);
    let n = <Q::P as PT>::N;
    let nm = Q::NAME;
    let ku = k as usize;
    v.push(Op { name: format!("{}.from_bits.to_posit", nm), args: vec![Arg::Img(k)], f: Box::new(move |a| { let q = Q::from_image(img(a, ku)); mix(q.to_posit().tb(), q.conv_to().tb()) ^ (q.is_zero() as u64) << 40 ^ (q.is_nar() as u64) << 41 }) });
    v.push(Op { name: format!("{}.neg/clear", nm), args: vec![Arg::Img(k)], f: Box::new(move |a| { let mut q = Q::from_image(img(a, ku)); q.neg(); let h = himg(q.image()); q.clear(); mix(h, himg(q.image())) }) });
    v.push(Op { name: format!("{}.into_two_posits", nm), args: vec![Arg::Img(k)], f: Box::new(move |a| { let (x, y) = Q::from_image(img(a, ku)).into_two(); mix(x.tb(), y.tb()) }) });
    v.push(Op { name: format!("{}.into_three_posits", nm), args: vec![Arg::Img(k)], f: Box::new(move |a| { let (x, y, z) = Q::from_image(img(a, ku)).into_three(); mix(mix(x.tb(), y.tb()), z.tb()) }) });
    let mut args = vec![Arg::Img(k)];
    args.push(Arg::P(n));
    args.push(Arg::P(n));
    v.push(Op { name: format!("{}.+=(a,b)", nm), args: args.clone(), f: Box::new(move |a| { let mut q = Q::from_image(img(a, ku)); q.add_tuple(<Q::P as PT>::fb(a[ku]), <Q::P as PT>::fb(a[ku + 1])); himg(q.image()) }) });
    v.push(Op { name: format!("{}.-=(a,b)", nm), args: args.clone(), f: Box::new(move |a| { let mut q = Q::from_image(img(a, ku)); q.sub_tuple(<Q::P as PT>::fb(a[ku]), <Q::P as PT>::fb(a[ku + 1])); himg(q.image()) }) });
    v.push(Op { name: format!("{}.+=a/-=a", nm), args: args.clone(), f: Box::new(move |a| { let mut q = Q::from_image(img(a, ku)); q.add_posit(<Q::P as PT>::fb(a[ku])); q.sub_posit(<Q::P as PT>::fb(a[ku + 1])); himg(q.image()) }) });
    v.push(Op { name: format!("{}.Quire::add_product/sub_product", nm), args, f: Box::new(move |a| { let mut q = Q::t_from_image(img(a, ku)); q.t_add_product(<Q::P as PT>::fb(a[ku]), <Q::P as PT>::fb(a[ku + 1])); q.t_sub_product(<Q::P as PT>::fb(a[ku + 1]), <Q::P as PT>::fb(a[ku])); himg(q.t_image()) ^ q.t_to_posit().tb() }) });
    v.push(Op { name: format!("{}.from_posit", nm), args: vec![Arg::P(n)], f: Box::new(|a| himg(Q::from_posit(<Q::P as PT>::fb(a[0])).image())) });
}

fn reg_px<X: PXC>(v: &mut Vec<Op>) {
    let n = X::N;
    let nm = X::name();
    macro_rules! px {
        ($name:expr, $k:expr, $f:expr) => {
            v.push(Op { name: format!("{}.{}", nm, $name), args: vec![Arg::Px(n); $k], f: Box::new(move |a| $f(X::fb(a[0] as u32), X::fb(*a.get(1).unwrap_or(&0) as u32), X::fb(*a.get(2).unwrap_or(&0) as u32))) });
        };
    }
    px!("+", 2, |a: X, b: X, _c: X| mix(a.op_add(b).tb() as u64, a.op_add_assign(b).tb() as u64));
    px!("-", 2, |a: X, b: X, _c: X| mix(a.op_sub(b).tb() as u64, a.op_sub_assign(b).tb() as u64));
    px!("*", 2, |a: X, b: X, _c: X| mix(a.op_mul(b).tb() as u64, a.op_mul_assign(b).tb() as u64));
    px!("/", 2, |a: X, b: X, _c: X| mix(a.op_div(b).tb() as u64, a.op_div_assign(b).tb() as u64));
    px!("mul_add", 3, |a: X, b: X, c: X| a.mul_add(b, c).tb() as u64);
    px!("mul_sub", 3, |a: X, b: X, c: X| a.mul_sub(b, c).tb() as u64);
    px!("sub_product", 3, |a: X, b: X, c: X| c.sub_product(a, b).tb() as u64);
    px!("sqrt", 1, |a: X, _b: X, _c: X| a.sqrt().map(|r| r.tb() as u64).unwrap_or(7));
    px!("round", 1, |a: X, _b: X, _c: X| a.round().tb() as u64);
    px!("-x", 1, |a: X, _b: X, _c: X| a.op_neg().tb() as u64 ^ (a.is_zero() as u64) << 40 ^ (a.is_nar() as u64) << 41);
    px!("cmp", 2, |a: X, b: X, _c: X| a.cmp(b) as i8 as u8 as u64 | (a.lt(b) as u64) << 8 | (a.op_le(b) as u64) << 9 | (a.op_eq(b) as u64) << 10 | (a.ord_min(b).tb() as u64) << 16);
    px!("to_f64/to_f32", 1, |a: X, _b: X, _c: X| mix(fb64(a.to_f64()), fb32(a.to_f32())));
    px!("to_p8e0/p16e1/p32e2", 1, |a: X, _b: X, _c: X| mix(mix(a.to_p8()[0], a.to_p16()[0]), a.to_p32()[0]));
    px!("to_i32/u32/i64/u64", 1, |a: X, _b: X, _c: X| mix(mix(a.to_i32()[0] as u32 as u64, a.to_u32()[0] as u64), mix(a.to_i64()[0] as u64, a.to_u64()[0])));
    v.push(Op { name: format!("{}.from_f64", nm), args: vec![Arg::F64], f: Box::new(|a| X::from_f64(f64::from_bits(a[0])).tb() as u64) });
    v.push(Op { name: format!("{}.from_f32", nm), args: vec![Arg::F32], f: Box::new(|a| X::from_f32(f32::from_bits(a[0] as u32)).tb() as u64) });
    v.push(Op { name: format!("{}.from_p8e0", nm), args: vec![Arg::P(8)], f: Box::new(|a| X::from_p8(a[0] as u8)[0] as u64) });
    v.push(Op { name: format!("{}.from_p16e1", nm), args: vec![Arg::P(16)], f: Box::new(|a| X::from_p16(a[0] as u16)[0] as u64) });
    v.push(Op { name: format!("{}.from_p32e2", nm), args: vec![Arg::P(32)], f: Box::new(|a| X::from_p32(a[0] as u32)[0] as u64) });
    v.push(Op { name: format!("{}.from_i32", nm), args: vec![Arg::I64], f: Box::new(|a| X::from_i32(a[0] as i32).map(|r| r[0] as u64).unwrap_or(7)) });
    v.push(Op { name: format!("{}.from_u64", nm), args: vec![Arg::I64], f: Box::new(|a| X::from_u64(a[0]).map(|r| r[0] as u64).unwrap_or(7)) });
    if X::FAMILY == "PxE2" {
        v.push(Op { name: format!("{}.from_u32", nm), args: vec![Arg::I64], f: Box::new(|a| X::from_u32(a[0] as u32).map(|r| r[0] as u64).unwrap_or(7)) });
        v.push(Op { name: format!("{}.from_i64", nm), args: vec![Arg::I64], f: Box::new(|a| X::from_i64(a[0] as i64).map(|r| r[0] as u64).unwrap_or(7)) });
        v.push(Op { name: format!("{}.from_q32e2", nm), args: vec![Arg::Img(8)], f: Box::new(|a| X::from_q32(&Q32E2::from_bits([a[0], a[1], a[2], a[3], a[4], a[5], a[6], a[7]])).unwrap_or(7) as u64) });
    }
}

fn reg_g2g<const M: u32, const N: u32>(v: &mut Vec<Op>) {
    v.push(Op { name: format!("PxE2<{}>->PxE1<{}>", M, N), args: vec![Arg::Px(M)], f: Box::new(|a| PxE1::<N>::from_pxe2(PxE2::<M>::from_bits(a[0] as u32)).to_bits() as u64) });
    v.push(Op { name: format!("PxE1<{}>->PxE2<{}>", M, N), args: vec![Arg::Px(M)], f: Box::new(|a| PxE2::<N>::from_pxe1(PxE1::<M>::from_bits(a[0] as u32)).to_bits() as u64) });
    v.push(Op { name: format!("PxE2<{}>->PxE2<{}>", M, N), args: vec![Arg::Px(M)], f: Box::new(|a| PxE2::<N>::from_pxe2(PxE2::<M>::from_bits(a[0] as u32)).to_bits() as u64) });
}

pub fn registry() -> &'static Vec<Op> {
    static REG: OnceLock<Vec<Op>> = OnceLock::new();
    REG.get_or_init(|| {
        let mut v = vec![];
        reg_fixed::<P8E0>(&mut v);
        reg_fixed::<P16E1>(&mut v);
        reg_fixed::<P32E2>(&mut v);
        reg_quire::<Q8E0>(&mut v);
        reg_quire::<Q16E1>(&mut v);
        reg_quire::<Q32E2>(&mut v);
        // posit <-> posit
        v.push(Op { name: "P8E0.to_p16e1/to_p32e2".into(), args: vec![Arg::P(8)], f: Box::new(|a| { let p = P8E0::from_bits(a[0] as u8); mix(p.to_p16e1().to_bits() as u64, p.to_p32e2().to_bits() as u64) }) });
        v.push(Op { name: "P16E1.to_p8e0/to_p32e2".into(), args: vec![Arg::P(16)], f: Box::new(|a| { let p = P16E1::from_bits(a[0] as u16); mix(p.to_p8e0().to_bits() as u64, p.to_p32e2().to_bits() as u64) }) });
        v.push(Op { name: "P32E2.to_p8e0/to_p16e1".into(), args: vec![Arg::P(32)], f: Box::new(|a| { let p = P32E2::from_bits(a[0] as u32); mix(p.to_p8e0().to_bits() as u64, p.to_p16e1().to_bits() as u64) }) });
        for n in 2..=32u32 {
            with_n!(n, N, {
                reg_px::<PxE2<N>>(&mut v);
                reg_px::<PxE1<N>>(&mut v);
            });
        }
        for m in [2u32, 3, 16, 31, 32] {
            for n in [2u32, 3, 4, 8, 15, 16, 30, 31, 32] {
                match m {
                    2 => with_n!(n, N, reg_g2g::<2, N>(&mut v)),
                    3 => with_n!(n, N, reg_g2g::<3, N>(&mut v)),
                    16 => with_n!(n, N, reg_g2g::<16, N>(&mut v)),
                    31 => with_n!(n, N, reg_g2g::<31, N>(&mut v)),
                    _ => with_n!(n, N, reg_g2g::<32, N>(&mut v)),
                }
            }
        }
        v
    })
}

// ---------------------------------------------------------------- worker (optimised build)

/// `vcheck --serve`: read batches of (op u32, nargs u32, args...) and answer result words
pub fn serve() -> i32 {
    let reg = registry();
    let stdin = std::io::stdin();
    let stdout = std::io::stdout();
    let mut inp = stdin.lock();
    let mut out = stdout.lock();
    let mut hdr = [0u8; 4];
    loop {
        if inp.read_exact(&mut hdr).is_err() {
            return 0;
        }
        let count = u32::from_le_bytes(hdr) as usize;
        let mut results = Vec::with_capacity(count * 8);
        for _ in 0..count {
            let mut h = [0u8; 8];
            if inp.read_exact(&mut h).is_err() {
                return 0;
            }
            let op = u32::from_le_bytes([h[0], h[1], h[2], h[3]]) as usize;
            let na = u32::from_le_bytes([h[4], h[5], h[6], h[7]]) as usize;
            let mut args = vec![0u64; na];
            for a in args.iter_mut() {
                let mut w = [0u8; 8];
                if inp.read_exact(&mut w).is_err() {
                    return 0;
                }
                *a = u64::from_le_bytes(w);
            }
            // a panic in the optimised build is reported as a distinguished word
            let r = match std::panic::catch_unwind(std::panic::AssertUnwindSafe(|| (reg[op].f)(&args))) {
                Ok(r) => r,
                Err(_) => 0xDEAD_DEAD_DEAD_DEAD,
            };
            results.extend_from_slice(&r.to_le_bytes());
        }
        if out.write_all(&results).is_err() || out.flush().is_err() {
            return 0;
        }
    }
}

struct Worker {
    child: std::process::Child,
    stdin: std::process::ChildStdin,
    rx: std::sync::mpsc::Receiver<Vec<u8>>,
}
fn spawn_worker() -> Result<Worker, String> {
    let exe = std::env::current_exe().map_err(|e| e.to_string())?;
    // .../target/checked/vcheck -> .../target/fast/vcheck
    let fast = exe.parent().and_then(|p| p.parent()).map(|p| p.join("fast").join("vcheck")).ok_or("no target dir")?;
    if !fast.exists() {
        return Err(format!("optimised build {} not found (run ./check setup)", fast.display()));
    }
    let mut child = std::process::Command::new(&fast).arg("--serve").stdin(std::process::Stdio::piped()).stdout(std::process::Stdio::piped()).stderr(std::process::Stdio::null()).spawn().map_err(|e| e.to_string())?;
    let stdin = child.stdin.take().unwrap();
    let mut stdout = child.stdout.take().unwrap();
    let (tx, rx) = std::sync::mpsc::channel();
    std::thread::spawn(move || {
        let mut buf = vec![0u8; 1 << 16];
        loop {
            match stdout.read(&mut buf) {
                Ok(0) | Err(_) => break,
                Ok(n) => {
                    if tx.send(buf[..n].to_vec()).is_err() {
                        break;
                    }
                }
            }
        }
    });
    Ok(Worker { child, stdin, rx })
}
impl Worker {
    /// send a batch, wait at most `secs` for all results
    fn batch(&mut self, cases: &[(u32, Vec<u64>)], secs: u64) -> Result<Vec<u64>, String> {
        let mut msg = Vec::with_capacity(cases.len() * 32);
        msg.extend_from_slice(&(cases.len() as u32).to_le_bytes());
        for (op, args) in cases {
            msg.extend_from_slice(&op.to_le_bytes());
            msg.extend_from_slice(&(args.len() as u32).to_le_bytes());
            for a in args {
                msg.extend_from_slice(&a.to_le_bytes());
            }
        }
        self.stdin.write_all(&msg).map_err(|e| e.to_string())?;
        self.stdin.flush().map_err(|e| e.to_string())?;
        let need = cases.len() * 8;
        let mut got: Vec<u8> = Vec::with_capacity(need);
        let deadline = std::time::Instant::now() + std::time::Duration::from_secs(secs);
        while got.len() < need {
            let left = deadline.saturating_duration_since(std::time::Instant::now());
            match self.rx.recv_timeout(left) {
                Ok(b) => got.extend_from_slice(&b),
                Err(std::sync::mpsc::RecvTimeoutError::Timeout) => return Err("timeout".into()),
                Err(_) => return Err("worker died".into()),
            }
        }
        Ok(got.chunks(8).map(|c| u64::from_le_bytes(c.try_into().unwrap())).collect())
    }
    fn kill(&mut self) {
        let _ = self.child.kill();
        let _ = self.child.wait();
    }
}

// ---------------------------------------------------------------- watchdog (checked build)

static SLOTS: [[AtomicU64; 4]; 64] = {
    #[allow(clippy::declare_interior_mutable_const)]
    const Z: AtomicU64 = AtomicU64::new(0);
    #[allow(clippy::declare_interior_mutable_const)]
    const R: [AtomicU64; 4] = [Z; 4];
    [R; 64]
};
fn slot() -> &'static [AtomicU64; 4] {
    &SLOTS[rayon::current_thread_index().unwrap_or(63) % 64]
}
/// publish the in-flight case: [serial|busy, op, arg0, arg1]
fn enter(op: u32, args: &[u64]) {
    let s = slot();
    s[1].store(op as u64, Ordering::Relaxed);
    s[2].store(args.first().copied().unwrap_or(0), Ordering::Relaxed);
    s[3].store(args.get(1).copied().unwrap_or(0), Ordering::Relaxed);
    s[0].store((s[0].load(Ordering::Relaxed) | 1).wrapping_add(2) | 1, Ordering::Release);
}
fn leave() {
    let s = slot();
    s[0].store(s[0].load(Ordering::Relaxed) & !1, Ordering::Release);
}
fn start_watchdog(prop: &'static str, limit_s: u64) {
    std::thread::spawn(move || {
        let mut last = [(0u64, std::time::Instant::now()); 64];
        loop {
            std::thread::sleep(std::time::Duration::from_secs(2));
            for (i, s) in SLOTS.iter().enumerate() {
                let v = s[0].load(Ordering::Acquire);
                if v & 1 == 0 || v != last[i].0 {
                    last[i] = (v, std::time::Instant::now());
                    continue;
                }
                if last[i].1.elapsed().as_secs() >= limit_s {
                    let op = s[1].load(Ordering::Relaxed) as usize;
                    let name = registry().get(op).map(|o| o.name.clone()).unwrap_or_default();
                    let v = Viol { op: name, args: vec![s[2].load(Ordering::Relaxed), s[3].load(Ordering::Relaxed)], want: "returns".into(), got: format!("no return after {} s", limit_s), kind: "hang" };
                    let _ = std::fs::create_dir_all(format!("{}/replays", verif_dir()));
                    let path = format!("{}/replays/{}-hang-{:016x}.json", verif_dir(), prop, hash_args(op as u64, &v.args));
                    let cfg = Cfg { prop, tier: Tier::Quick, seed: 0 };
                    let _ = std::fs::write(&path, serde_json::to_string_pretty(&v.to_json(&cfg)).unwrap());
                    crate::outln!("VIOLATION property={} replay={}", prop, path);
                    crate::outln!("  # {} args={:x?} does not return (kind=hang)", v.op, v.args);
                    // the run cannot finish: leave a (schema-valid) evidence file describing just this
                    let ev = json!({"property_id": prop, "tier": "quick", "seed": 0, "level": "exploration", "wall_s": limit_s as f64, "violations": 1,
                        "coverage": {"evaluations": 1, "distinct_nontrivial": 2, "rule": "run aborted by the watchdog: one case did not return", "samples": [v.to_json(&cfg)]}});
                    let _ = std::fs::create_dir_all(format!("{}/evidence", verif_dir()));
                    let _ = std::fs::write(format!("{}/evidence/{}.json", verif_dir(), prop), serde_json::to_string_pretty(&ev).unwrap());
                    std::process::exit(1);
                }
            }
        }
    });
}

// ---------------------------------------------------------------- generation

fn arg_strategy(a: Arg) -> BoxedStrategy<Vec<u64>> {
    match a {
        Arg::P(n) => prop_oneof![3 => gen::bits(n), 2 => proptest::sample::select(gen::specials(n))].prop_map(|b| vec![b]).boxed(),
        Arg::Px(n) => prop_oneof![3 => gen::bits(n), 2 => proptest::sample::select(gen::specials(n)), 1 => any::<u64>().prop_map(|x| x & 0xffff_ffff)].prop_map(move |b| vec![if b >> n == 0 { b << (32 - n) } else { b }]).boxed(),
        Arg::F64 => prop_oneof![3 => gen::f64bits(), 1 => proptest::sample::select(vec![0u64, 1 << 63, 0x7ff0 << 48, 0xfff0 << 48, 0x7ff8 << 48, 1, 0x7fef_ffff_ffff_ffff, 0xffef_ffff_ffff_ffff, 0x0010 << 48])].prop_map(|b| vec![b]).boxed(),
        Arg::F32 => prop_oneof![3 => gen::f32bits().prop_map(|b| b as u64), 1 => proptest::sample::select(vec![0u64, 1 << 31, 0x7f80_0000, 0xff80_0000, 0x7fc0_0000, 1, 0x7f7f_ffff, 0x0080_0000])].prop_map(|b| vec![b]).boxed(),
        Arg::I64 => prop_oneof![3 => gen::int64(), 2 => proptest::sample::select(vec![0u64, 1, u64::MAX, i64::MIN as u64, i64::MAX as u64, i32::MIN as i64 as u64, i32::MAX as u64, 0x8000_0000, u32::MAX as u64, i32::MIN as u32 as u64])].prop_map(|b| vec![b]).boxed(),
        Arg::Small => prop_oneof![(-40i64..40).prop_map(|x| x as u64), proptest::sample::select(vec![i32::MIN as i64 as u64, i32::MAX as u64, 0u64])].prop_map(|b| vec![b]).boxed(),
        Arg::Img(k) => prop_oneof![
            // arbitrary images: random, sparse, near-NaR, near-zero, all ones
            2 => proptest::collection::vec(any::<u64>(), k as usize),
            2 => proptest::collection::vec(prop_oneof![Just(0u64), Just(u64::MAX), any::<u64>(), Just(1u64), Just(1u64 << 63)], k as usize),
            1 => (0..k as usize, any::<u64>()).prop_map(move |(i, w)| { let mut v = vec![0u64; k as usize]; v[i] = w; v }),
            1 => (0..k as usize, any::<u64>()).prop_map(move |(i, w)| { let mut v = vec![u64::MAX; k as usize]; v[i] = w; v }),
            1 => (any::<u64>()).prop_map(move |w| { let mut v = vec![0u64; k as usize]; v[0] = 1 << 63; v[k as usize - 1] = w & 3; v }),
        ]
        .boxed(),
        Arg::Text => (any::<u64>(), any::<u64>()).prop_map(|(a, b)| vec![a, b]).boxed(),
    }
}
fn case_strategy(args: &[Arg]) -> BoxedStrategy<Vec<u64>> {
    let parts: Vec<BoxedStrategy<Vec<u64>>> = args.iter().map(|a| arg_strategy(*a)).collect();
    parts.prop_map(|vs| vs.into_iter().flatten().collect()).boxed()
}

/// is a panic of this op an explicit not-implemented stub?
fn is_stub_panic(msg: &str) -> bool {
    msg.contains("not yet implemented") || msg.contains("not implemented")
}
pub fn stub_table() -> &'static (Vec<String>, Vec<String>) {
    static T: OnceLock<(Vec<String>, Vec<String>)> = OnceLock::new();
    T.get_or_init(|| {
        let path = format!("{}/c16_stubs.json", verif_dir());
        let v = std::fs::read_to_string(path).ok().and_then(|t| serde_json::from_str::<serde_json::Value>(&t).ok());
        let list = |k: &str| -> Vec<String> { v.as_ref().and_then(|v| v.get(k)).and_then(|s| s.as_array().cloned()).map(|a| a.iter().filter_map(|x| x.as_str().map(|s| s.to_string())).collect()).unwrap_or_default() };
        (list("stubs"), list("partial"))
    })
}
/// is a 'not yet implemented' panic of this op on these arguments excused?
fn stub_excused(name: &str, args: &[u64]) -> bool {
    let (always, partial) = stub_table();
    if always.iter().any(|s| s == name) {
        return true;
    }
    if partial.iter().any(|s| s == name) {
        // P32E2 trig functions are unimplemented from |x| >= 393216 = pattern 0x7d40_0000 upwards
        let a = args.first().copied().unwrap_or(0) as u32;
        let mag = if a & 0x8000_0000 != 0 { a.wrapping_neg() } else { a };
        return mag >= 0x7d40_0000;
    }
    false
}

/// the domain exclusions the crate documents: clamp(lo > hi) is an assert (not generated at all here)
/// cases that took longer than 2 s (normal cost: microseconds) are recorded here at once and their
/// operation is skipped afterwards, so that neither the search nor proptest's shrinking (which would
/// re-run a multi-second case hundreds of times) can stall the check
static SLOW: Mutex<Vec<(usize, Option<Viol>)>> = Mutex::new(Vec::new());

pub fn eval_checked(opi: usize, args: &[u64], l: &mut Local) -> Result<Option<u64>, Viol> {
    let op = &registry()[opi];
    if SLOW.lock().unwrap().iter().any(|(i, _)| *i == opi) {
        return Ok(None);
    }
    l.eval();
    enter(opi as u32, args);
    let t0 = std::time::Instant::now();
    let r = guard(|| (op.f)(args));
    leave();
    let dt = t0.elapsed().as_secs_f64();
    if dt > 2.0 {
        // skip the operation from now on (also keeps proptest from re-running a multi-second case while shrinking)
        match &r {
            Err(m) => {
                let v = Viol { op: op.name.clone(), args: args.to_vec(), want: "a result within microseconds".into(), got: format!("{} after {:.1} s of spinning", m, dt), kind: "panic" };
                SLOW.lock().unwrap().push((opi, Some(v)));
                return Ok(None);
            }
            Ok(v) if dt > 30.0 => {
                let v = Viol { op: op.name.clone(), args: args.to_vec(), want: "a result within microseconds".into(), got: format!("{:#x} after {:.1} s", v, dt), kind: "hang" };
                SLOW.lock().unwrap().push((opi, Some(v)));
                return Ok(None);
            }
            Ok(_) => {
                // a few seconds for a call that normally takes microseconds: most likely this thread was
                // descheduled on a loaded machine; not a violation, but do not keep paying for it
                l.label("slow_case(2-30s, not judged)");
                SLOW.lock().unwrap().push((opi, None));
            }
        }
    }
    match r {
        Ok(v) => {
            l.sample(|| json!({"op": op.name, "args": args.iter().map(|a| hex(*a)).collect::<Vec<_>>(), "result_word": hex(v)}));
            Ok(Some(v))
        }
        Err(m) => {
            if is_stub_panic(&m) {
                if stub_excused(&op.name, args) {
                    l.label("explicit_stub(not counted)");
                    return Ok(None);
                }
                return Err(Viol::panic(op.name.clone(), args, "a result (operation is not in the committed stub table c16_stubs.json)".into(), m));
            }
            Err(Viol::panic(op.name.clone(), args, "a result (no panic)".into(), m))
        }
    }
}

pub fn run(rep: &mut Report) {
    let tier = rep.cfg.tier;
    let reg = registry();
    rep.rule = format!("{} registered public operations (every arithmetic, fused, rounding, comparison, conversion and elementary function of P8E0, P16E1, P32E2; PxE1<N> and PxE2<N> for every N in 2..=32; quire operations on arbitrary from_bits images; posit<->posit, generic<->generic, Q32E2 -> PxE2<N>; FromStr on generated text), each with proptest inputs (structured bits, specials 0 / NaR / +-minpos / +-maxpos, extreme integers, NaN / inf / subnormal floats, arbitrary quire images). (1) the overflow-checked build must return: a panic is a violation unless its message is 'not yet implemented' and the operation is in the committed stub table; (2) the plain optimised build of the same sources must return identical bits on every case that returned in (1); (3) a case that does not return within the watchdog limit is kind=hang. Non-trivial = case with a non-special first operand or an extreme special; distinct (op, inputs).", reg.len());
    rep.assumptions = vec![
        "both binaries are built from the same harness sources, so their op registries are identical".into(),
        "float results are compared as bits with NaN canonicalised".into(),
        "a loop that is merely slow (< watchdog limit) passes".into(),
    ];
    if stub_table().0.is_empty() {
        rep.inconclusive.push("c16_stubs.json (table of the crate's explicit todo!() operations) is missing or empty".into());
        return;
    }
    let mut worker = match spawn_worker() {
        Ok(w) => w,
        Err(e) => {
            rep.inconclusive.push(format!("cannot start the optimised-build worker: {}", e));
            return;
        }
    };
    start_watchdog(rep.cfg.prop, 60);
    // corpus first
    let items = super::corpus(rep.cfg.prop);
    let pending: Mutex<Vec<(u32, Vec<u64>, u64)>> = Mutex::new(vec![]);
    if !items.is_empty() {
        rep.fixed("corpus replay", &items, |(op, args), l| {
            if let Some(i) = reg.iter().position(|o| &o.name == op) {
                if let Some(v) = eval_checked(i, args, l)? {
                    pending.lock().unwrap().push((i as u32, args.clone(), v));
                }
            }
            Ok(())
        });
    }
    let per = tier.pick(3_000, 40_000);
    // one generated section per operation family (type prefix) to keep the report readable
    let mut families: Vec<(String, Vec<usize>)> = vec![];
    for (i, o) in reg.iter().enumerate() {
        let fam = o.name.split(|c| c == '.' || c == '-').next().unwrap_or("").to_string();
        match families.last_mut() {
            Some((f, v)) if *f == fam => v.push(i),
            _ => families.push((fam, vec![i])),
        }
    }
    for (fam, ops) in families {
        let cases = per * ops.len() as u64;
        let ops2 = ops.clone();
        rep.generated(&format!("{}: {} operations", fam, ops.len()), cases, move || {
            let ops3 = ops2.clone();
            (0..ops2.len()).prop_flat_map(move |k| {
                let opi = ops3[k];
                case_strategy(&registry()[opi].args).prop_map(move |a| (opi, a))
            })
        }, |(opi, args), l| {
            let r = eval_checked(*opi, args, l)?;
            if let Some(v) = r {
                let a0 = args.first().copied().unwrap_or(0);
                if a0 != 0 {
                    l.nontrivial(hash_args(*opi as u64, args));
                }
                if !l.frozen {
                    let mut p = pending.lock().unwrap();
                    if p.len() < 6_000_000 {
                        p.push((*opi as u32, args.clone(), v));
                    }
                }
            }
            Ok(())
        });
    }
    // (2) differential against the optimised build
    let pend = pending.into_inner().unwrap();
    let t = std::time::Instant::now();
    let mut l = Local::new(true);
    let mut viols: Vec<Viol> = vec![];
    for chunk in pend.chunks(8192) {
        let cases: Vec<(u32, Vec<u64>)> = chunk.iter().map(|c| (c.0, c.1.clone())).collect();
        match worker.batch(&cases, 120) {
            Ok(res) => {
                for (c, r) in chunk.iter().zip(res) {
                    l.eval();
                    if r != c.2 {
                        let name = reg[c.0 as usize].name.clone();
                        let v = if r == 0xDEAD_DEAD_DEAD_DEAD { Viol::panic(format!("{}@optimised-build", name), &c.1, format!("{:#x}", c.2), "panic in the optimised build".into()) } else { Viol::wrong_s(format!("{}@optimised-build", name), &c.1, format!("{:#x} (overflow-checked build)", c.2), format!("{:#x}", r)) };
                        if let Err(v) = l.outcome(rep.cfg.prop, Err(v)) {
                            if viols.len() < 8 {
                                viols.push(v);
                            }
                        }
                    }
                }
            }
            Err(e) => {
                // find the culprit one by one with a fresh worker
                worker.kill();
                let mut found = false;
                if let Ok(mut w2) = spawn_worker() {
                    for c in chunk {
                        if w2.batch(&[(c.0, c.1.clone())], 20).is_err() {
                            let v = Viol { op: format!("{}@optimised-build", reg[c.0 as usize].name), args: c.1.clone(), want: format!("{:#x} (overflow-checked build)", c.2), got: format!("no return within 20 s ({})", e), kind: "hang" };
                            if let Err(v) = l.outcome(rep.cfg.prop, Err(v)) {
                                viols.push(v);
                            }
                            found = true;
                            w2.kill();
                            break;
                        }
                    }
                    if !found {
                        w2.kill();
                    }
                }
                if !found {
                    rep.inconclusive.push(format!("optimised-build worker failed on a batch ({}), culprit not reproduced", e));
                }
                match spawn_worker() {
                    Ok(w) => worker = w,
                    Err(e) => {
                        rep.inconclusive.push(e);
                        break;
                    }
                }
            }
        }
    }
    worker.kill();
    for (_, v) in SLOW.lock().unwrap().drain(..) {
        if let Some(v) = v {
            if let Err(v) = l.outcome(rep.cfg.prop, Err(v)) {
                viols.push(v);
            }
        }
    }
    l.sample(|| json!({"ops_registered": reg.len(), "cases_compared_between_builds": pend.len()}));
    let mut out = SectionOut { name: format!("optimised build vs overflow-checked build: identical bits on {} returned cases", pend.len()), exhaustive: false, evals: l.evals, nontrivial: 0, distinct: 0, labels: Default::default(), samples: l.samples, viols, known: l.known, wall_s: t.elapsed().as_secs_f64() };
    out.nontrivial = pend.len() as u64;
    out.distinct = pend.len() as u64;
    rep.sections.push(out);
    rep.extra.insert("ops_registered".into(), json!(reg.len()));
    // registry completeness (informational): public fn names found in /repo/src that no registered
    // operation name mentions and that are not in the reviewed exclusion list
    let unregistered = unregistered_public_fns();
    if !unregistered.is_empty() {
        crate::outln!("NOTE: public functions not covered by the C16 registry: {:?}", unregistered);
    }
    rep.extra.insert("public_fns_not_in_registry".into(), json!(unregistered));
}

pub fn replay(op: &str, args: &[u64]) -> Result<(), Viol> {
    let mut l = Local::new(false);
    let reg = registry();
    let (name, optimised) = match op.strip_suffix("@optimised-build") {
        Some(n) => (n, true),
        None => (op, false),
    };
    let i = match reg.iter().position(|o| o.name == name) {
        Some(i) => i,
        None => return Ok(()),
    };
    let v = eval_checked(i, args, &mut l)?;
    if optimised {
        if let (Some(v), Ok(mut w)) = (v, spawn_worker()) {
            let r = w.batch(&[(i as u32, args.to_vec())], 20);
            w.kill();
            match r {
                Ok(res) if res[0] == v => {}
                Ok(res) => return Err(Viol::wrong_s(op, args, format!("{:#x} (overflow-checked build)", v), format!("{:#x}", res[0]))),
                Err(e) => return Err(Viol { op: op.into(), args: args.to_vec(), want: format!("{:#x}", v), got: e, kind: "hang" }),
            }
        }
    }
    Ok(())
}

/// tooling: list operations whose every probed input panics with "not yet implemented"
pub fn list_stubs() -> i32 {
    use proptest::strategy::ValueTree;
    use proptest::test_runner::{Config, RngSeed, TestRunner};
    let reg = registry();
    let mut stubs = vec![];
    let mut partial = vec![];
    for (i, o) in reg.iter().enumerate() {
        let mut runner = TestRunner::new(Config { rng_seed: RngSeed::Fixed(1), ..Config::default() });
        let st = case_strategy(&o.args);
        let (mut st_n, mut ok_n) = (0, 0);
        for _ in 0..300 {
            let a = st.new_tree(&mut runner).unwrap().current();
            match guard(|| (reg[i].f)(&a)) {
                Err(m) if is_stub_panic(&m) => st_n += 1,
                Ok(_) => ok_n += 1,
                _ => {}
            }
        }
        if st_n > 0 && ok_n == 0 {
            stubs.push(o.name.clone());
        } else if st_n > 0 {
            partial.push(o.name.clone());
        }
    }
    crate::outln!("{}", serde_json::to_string_pretty(&json!({"stubs": stubs.iter().chain(partial.iter()).collect::<Vec<_>>(), "always": stubs, "partial": partial})).unwrap());
    0
}

/// names of `pub fn` / `pub const fn` items under /repo/src that the registry does not exercise
fn unregistered_public_fns() -> Vec<String> {
    // reviewed: constructors/accessors used by every case, internal helpers exposed as pub, stubs
    const EXCLUDED: &[&str] = &[
        "new", "from_bits", "to_bits", "init", "isqrt", "poly", "bitround", "pow", "pow2i", "ilogb", "ldexp2", "mulsign",
        "to_i8", "to_i16", "to_isize", "to_u8", "to_u16", "to_usize", // narrow to_* : forwarded to to_i32/to_u32, compared in C17
        "eq", "lt", "le", "gt", "ge", "is_zero", "is_nar", "is_nan", "is_infinite", "is_finite", "is_normal", "is_sign_positive", "is_sign_negative", "clamp", // inside classify/cmp ops; clamp(lo > hi) is a documented assert
        "from_pxe1", "from_pxe2", "to_pxe1", "to_pxe2", "from_posit", "to_posit", "add_product", "sub_product", "clear", "into_two_posits", "into_three_posits",
        "from_i8", "from_i16", "from_isize", "from_u8", "from_u16", "from_usize", "quire_dot",
    ];
    let names: std::collections::BTreeSet<String> = registry().iter().flat_map(|o| o.name.split(|c: char| !(c.is_alphanumeric() || c == '_')).map(|s| s.to_string()).collect::<Vec<_>>()).collect();
    let mut missing = std::collections::BTreeSet::new();
    fn walk(dir: &std::path::Path, out: &mut Vec<std::path::PathBuf>) {
        if let Ok(rd) = std::fs::read_dir(dir) {
            for e in rd.flatten() {
                let p = e.path();
                if p.is_dir() {
                    walk(&p, out);
                } else if p.extension().map(|x| x == "rs").unwrap_or(false) {
                    out.push(p);
                }
            }
        }
    }
    let mut files = vec![];
    walk(std::path::Path::new("/repo/src"), &mut files);
    for f in files {
        if f.to_string_lossy().contains("linalg") {
            continue;
        }
        if let Ok(t) = std::fs::read_to_string(&f) {
            for line in t.lines() {
                let l = line.trim_start();
                let rest = l.strip_prefix("pub const fn ").or_else(|| l.strip_prefix("pub fn "));
                if let Some(r) = rest {
                    let name: String = r.chars().take_while(|c| c.is_alphanumeric() || *c == '_').collect();
                    if !name.is_empty() && !names.contains(&name) && !EXCLUDED.contains(&name.as_str()) {
                        missing.insert(name);
                    }
                }
            }
        }
    }
    missing.into_iter().collect()
}
