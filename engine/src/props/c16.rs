pub fn serve() -> i32 { 2 }
