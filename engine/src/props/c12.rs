//! C12 — quire state operations: round trip, negate, clear, residual split (DESIGN.md section 6, C12).
use super::quire::*;
use super::util::*;
use crate::core::*;
use crate::gen;
use crate::pt::{PT, QT};
use softposit::{P16E1, P32E2, P8E0, Q16E1, Q32E2, Q8E0};

const FL: Flags = Flags { c12: true };

/// posit -> quire -> posit is the identity (three spellings of each direction)
pub fn roundtrip<Q: QT>(a: u64, l: &mut Local) -> Result<(), Viol> {
    let p = <Q::P as PT>::fb(a);
    let nm = |s: &str| format!("{}.{}", Q::NAME, s);
    l.evaln(4);
    expect_bits(&nm("from_posit.to_posit"), &[a], a, guard(|| Q::from_posit(p).to_posit().tb()))?;
    expect_bits(&nm("From<P>.Into<P>"), &[a], a, guard(|| Q::conv_from(p).conv_to().tb()))?;
    expect_bits(&nm("Quire::from_posit.Quire::to_posit"), &[a], a, guard(|| Q::t_from_posit(p).t_to_posit().tb()))?;
    // the image of the quire must be the exact value
    let want = match dec::<Q::P>(a) {
        None => nar_image(Q::BITS),
        Some(x) => image_of(&x, Q::FRAC, Q::BITS).expect("a posit always fits its quire"),
    };
    match guard(|| Q::from_posit(p).image()) {
        Ok(i) if i == want => {}
        Ok(i) => return Err(Viol::wrong_s(nm("from_posit.to_bits"), &[a], img_hex(&want), img_hex(&i))),
        Err(e) => return Err(Viol::panic(nm("from_posit.to_bits"), &[a], img_hex(&want), e)),
    }
    if a != 0 && a != nar::<Q::P>() {
        l.nontrivial(a);
    }
    Ok(())
}

fn hist<Q: QT>(rep: &mut Report, cases: u64) {
    rep.generated(&format!("{} generated histories with neg/clear inserted; final state: from_bits(to_bits), neg, neg(neg), into_two/three_posits, clear", Q::NAME), cases, || history::<Q::P>(true, 16), |(steps, perm), l| run_history::<Q>(steps, *perm, &FL, l));
}

pub fn run(rep: &mut Report) {
    let tier = rep.cfg.tier;
    rep.rule = "(1) round trip posit -> quire -> posit for every posit (P8, P16 all; P32 generated + strided, thorough all 2^32), incl. the quire's image being the exact value; (2) histories as in C04 with neg and clear inserted at random positions (the per-step invariant of C04 holds the model in lock-step), and on every final state: from_bits(to_bits(q)) == q, neg gives the image of -s and neg twice the original bits, into_two_posits / into_three_posits equal round(s), round(s-p1), round(s-p1-p2) with exact subtraction, clear gives the zero image. Non-trivial as in C04; round trip: real non-zero posit."
        .into();
    rep.assumptions = std_assumptions();
    super::run_corpus(rep, replay);
    rep.exhaustive("Q8E0 round trip of all 256 posits", 1 << 8, |i, l| roundtrip::<Q8E0>(i, l));
    rep.exhaustive("Q16E1 round trip of all 65536 posits", 1 << 16, |i, l| roundtrip::<Q16E1>(i, l));
    rep.generated("Q32E2 round trip of generated posits", tier.pick(300_000, 3_000_000), || gen::bits(32), |&a, l| roundtrip::<Q32E2>(a, l));
    match tier {
        Tier::Quick => {
            let off = rep.cfg.seed % 16;
            rep.lattice("Q32E2 round trip of every 16th posit pattern", 1 << 28, move |i, l| roundtrip::<Q32E2>(i * 16 + off, l));
        }
        Tier::Thorough => rep.exhaustive("Q32E2 round trip of all 2^32 posits", 1 << 32, |i, l| roundtrip::<Q32E2>(i, l)),
    }
    let h = tier.pick(150_000, 1_200_000);
    hist::<Q8E0>(rep, h);
    hist::<Q16E1>(rep, h);
    hist::<Q32E2>(rep, h);
    // the residual split rounds the accumulator up to three times: tie-directed states (threshold + one
    // distant sticky term, as in C04) exercise exactly the rounding decisions of into_two/three_posits
    fn ties<Q: QT>(rep: &mut Report, cases: u64) {
        rep.generated(&format!("{} tie-directed histories (threshold + one distant sticky term); final state: from_bits(to_bits), neg, into_two/three_posits, clear", Q::NAME), cases, || super::quire::tie_history::<Q::P>(), |(steps, perm), l| run_history::<Q>(steps, *perm, &FL, l));
    }
    ties::<Q8E0>(rep, h / 4);
    ties::<Q16E1>(rep, h / 2);
    ties::<Q32E2>(rep, h);
}

pub fn replay(op: &str, args: &[u64]) -> Result<(), Viol> {
    let mut l = Local::new(false);
    let ty = op.split('.').next().unwrap_or("");
    if args.len() == 1 {
        return match ty {
            "Q8E0" => roundtrip::<Q8E0>(args[0], &mut l),
            "Q16E1" => roundtrip::<Q16E1>(args[0], &mut l),
            _ => roundtrip::<Q32E2>(args[0], &mut l),
        };
    }
    let (steps, perm) = decode_history(args);
    match ty {
        "Q8E0" => run_history::<Q8E0>(&steps, perm, &FL, &mut l),
        "Q16E1" => run_history::<Q16E1>(&steps, perm, &FL, &mut l),
        _ => run_history::<Q32E2>(&steps, perm, &FL, &mut l),
    }
}
#[allow(dead_code)]
fn _t() {
    let _ = (P8E0::ZERO, P16E1::ZERO, P32E2::ZERO);
}
