//! C10 — ordering, sign and selection operations (DESIGN.md section 6, C10).
use super::util::*;
use crate::core::*;
use crate::gen;
use crate::pt::PT;
use crate::px::PX;
use crate::refmodel::*;
use crate::with_n;
use core::cmp::Ordering;
use core::num::FpCategory;
use proptest::prelude::*;
use serde_json::json;
use softposit::{P16E1, P32E2, P8E0, PxE1, PxE2};

/// real-number order with NaR below every real and equal only to itself
#[inline]
fn order(x: &Option<Dy>, y: &Option<Dy>) -> Ordering {
    match (x, y) {
        (None, None) => Ordering::Equal,
        (None, Some(_)) => Ordering::Less,
        (Some(_), None) => Ordering::Greater,
        (Some(a), Some(b)) => a.cmp(b),
    }
}

fn bool_fail(name: String, args: &[u64], want: bool, got: Result<bool, String>) -> Result<(), Viol> {
    expect_bits(&name, args, want as u64, got.map(|b| b as u64))
}
fn ord_code(o: Ordering) -> u64 {
    match o {
        Ordering::Less => 0,
        Ordering::Equal => 1,
        Ordering::Greater => 2,
    }
}

/// comparisons and selections on a pair; values decoded independently
pub fn pair<P: PT>(a: u64, b: u64, l: &mut Local) -> Result<(), Viol> {
    let (da, db) = (dec::<P>(a), dec::<P>(b));
    let o = order(&da, &db);
    let (pa, pb) = (P::fb(a), P::fb(b));
    let args = [a, b];
    let nm = |s: &str| format!("{}.{}", P::NAME, s);
    l.evaln(18);
    bool_fail(nm("eq"), &args, o == Ordering::Equal, guard(|| pa.eq(pb)))?;
    bool_fail(nm("lt"), &args, o == Ordering::Less, guard(|| pa.lt(pb)))?;
    bool_fail(nm("le"), &args, o != Ordering::Greater, guard(|| pa.le(pb)))?;
    bool_fail(nm("gt"), &args, o == Ordering::Greater, guard(|| pa.gt(pb)))?;
    bool_fail(nm("ge"), &args, o != Ordering::Less, guard(|| pa.ge(pb)))?;
    bool_fail(nm("=="), &args, o == Ordering::Equal, guard(|| pa.op_eq(pb)))?;
    bool_fail(nm("<"), &args, o == Ordering::Less, guard(|| pa.op_lt(pb)))?;
    bool_fail(nm("<="), &args, o != Ordering::Greater, guard(|| pa.op_le(pb)))?;
    bool_fail(nm(">"), &args, o == Ordering::Greater, guard(|| pa.op_gt(pb)))?;
    bool_fail(nm(">="), &args, o != Ordering::Less, guard(|| pa.op_ge(pb)))?;
    expect_bits(&nm("cmp"), &args, ord_code(o), guard(|| ord_code(pa.cmp(pb))))?;
    expect_bits(&nm("Ord::cmp"), &args, ord_code(o), guard(|| ord_code(pa.op_cmp(pb))))?;
    expect_bits(&nm("partial_cmp"), &args, ord_code(o), guard(|| pa.op_partial_cmp(pb).map(ord_code).unwrap_or(9)))?;
    // min / max return one of the inputs, bit-identical, and the right one
    let (mn, mx) = if o == Ordering::Greater { (b, a) } else { (a, b) };
    expect_bits(&nm("min"), &args, mn, guard(|| pa.min(pb).tb()))?;
    expect_bits(&nm("max"), &args, mx, guard(|| pa.max(pb).tb()))?;
    expect_bits(&nm("Ord::min"), &args, mn, guard(|| pa.ord_min(pb).tb()))?;
    expect_bits(&nm("Ord::max"), &args, mx, guard(|| pa.ord_max(pb).tb()))?;
    // copysign for real arguments: |a| * sgn(b), zero counted as non-negative
    if let (Some(x), Some(y)) = (&da, &db) {
        let want = if x.neg != y.neg { rnd::<P, _>(&x.neg()) } else { a };
        // -x is always representable: the oracle's own rounding must be exact
        expect_bits(&nm("copysign"), &args, want, guard(|| pa.copysign(pb).tb()))?;
        if a != b && (x.neg != y.neg || (a ^ b) < 4) {
            l.nontrivial(hash_args(P::N as u64, &args));
            if x.neg != y.neg {
                l.label("opposite_sign");
            } else {
                l.label("differ_in_last_2_bits");
            }
        }
    } else {
        l.label("with_NaR");
    }
    Ok(())
}

pub fn unary<P: PT>(a: u64, l: &mut Local) -> Result<(), Viol> {
    let d = dec::<P>(a);
    let p = P::fb(a);
    let args = [a];
    let nm = |s: &str| format!("{}.{}", P::NAME, s);
    let m = gen::mask(P::N);
    l.evaln(12);
    // neg: exact negation, involution, fixes 0 and NaR
    let wneg = match &d {
        None => nar::<P>(),
        Some(x) => rnd::<P, _>(&x.neg()),
    };
    if wneg != a.wrapping_neg() & m {
        panic!("oracle: negation of {:#x}", a);
    }
    expect_bits(&nm("neg"), &args, wneg, guard(|| p.neg().tb()))?;
    expect_bits(&nm("-x"), &args, wneg, guard(|| p.op_neg().tb()))?;
    expect_bits(&nm("neg(neg)"), &args, a, guard(|| p.neg().neg().tb()))?;
    bool_fail(nm("is_nar"), &args, d.is_none(), guard(|| p.is_nar()))?;
    bool_fail(nm("is_nan"), &args, d.is_none(), guard(|| p.is_nan()))?;
    bool_fail(nm("is_finite"), &args, d.is_some(), guard(|| p.is_finite()))?;
    let wclass = match &d {
        None => FpCategory::Nan,
        Some(x) if x.is_zero() => FpCategory::Zero,
        _ => FpCategory::Normal,
    };
    expect_bits(&nm("classify"), &args, wclass as u64, guard(|| p.classify() as u64))?;
    bool_fail(nm("is_zero"), &args, matches!(&d, Some(x) if x.is_zero()), guard(|| p.is_zero()))?;
    if let Some(x) = &d {
        // sign functions are judged for real arguments only (DESIGN.md C10)
        expect_bits(&nm("abs"), &args, rnd::<P, _>(&x.abs()), guard(|| p.abs().tb()))?;
        let sg = if x.is_zero() { Dy::ZERO } else { Dy::new(x.neg, 1, 0) };
        expect_bits(&nm("signum"), &args, rnd::<P, _>(&sg), guard(|| p.signum().tb()))?;
        bool_fail(nm("is_sign_negative"), &args, x.neg, guard(|| p.is_sign_negative()))?;
        bool_fail(nm("is_sign_positive"), &args, !x.neg, guard(|| p.is_sign_positive()))?;
        if !x.is_zero() {
            l.nontrivial(a);
        }
    }
    Ok(())
}

pub fn clamp3<P: PT>(x: u64, lo: u64, hi: u64, l: &mut Local) -> Result<(), Viol> {
    let (dx, dl, dh) = (dec::<P>(x), dec::<P>(lo), dec::<P>(hi));
    // domain: lo <= hi (documented assert)
    if order(&dl, &dh) == Ordering::Greater {
        return Ok(());
    }
    l.evaln(2);
    let want = if order(&dx, &dl) == Ordering::Less {
        lo
    } else if order(&dx, &dh) == Ordering::Greater {
        hi
    } else {
        x
    };
    let args = [x, lo, hi];
    expect_bits(&format!("{}.clamp", P::NAME), &args, want, guard(|| P::fb(x).clamp(P::fb(lo), P::fb(hi)).tb()))?;
    expect_bits(&format!("{}.Ord::clamp", P::NAME), &args, want, guard(|| P::fb(x).ord_clamp(P::fb(lo), P::fb(hi)).tb()))?;
    if want != x {
        l.nontrivial(hash_args(77, &args));
    }
    Ok(())
}

/// generic-width: pair (left-aligned words), all order operations and negation
pub fn px_pair<X: PX>(a: u32, b: u32, c: u32, l: &mut Local) -> Result<(), Viol> {
    let sh = 32 - X::N;
    let (da, db, dc) = (decode(X::N, X::ES, (a >> sh) as u64), decode(X::N, X::ES, (b >> sh) as u64), decode(X::N, X::ES, (c >> sh) as u64));
    let o = order(&da, &db);
    let (pa, pb, pc) = (X::fb(a), X::fb(b), X::fb(c));
    let args = [a as u64, b as u64];
    let nm = |s: &str| format!("{}.{}", X::name(), s);
    l.evaln(17);
    bool_fail(nm("eq"), &args, o == Ordering::Equal, guard(|| pa.eq(pb)))?;
    bool_fail(nm("lt"), &args, o == Ordering::Less, guard(|| pa.lt(pb)))?;
    bool_fail(nm("le"), &args, o != Ordering::Greater, guard(|| pa.le(pb)))?;
    bool_fail(nm("gt"), &args, o == Ordering::Greater, guard(|| pa.gt(pb)))?;
    bool_fail(nm("ge"), &args, o != Ordering::Less, guard(|| pa.ge(pb)))?;
    bool_fail(nm("=="), &args, o == Ordering::Equal, guard(|| pa.op_eq(pb)))?;
    bool_fail(nm("<"), &args, o == Ordering::Less, guard(|| pa.op_lt(pb)))?;
    bool_fail(nm("<="), &args, o != Ordering::Greater, guard(|| pa.op_le(pb)))?;
    bool_fail(nm(">"), &args, o == Ordering::Greater, guard(|| pa.op_gt(pb)))?;
    bool_fail(nm(">="), &args, o != Ordering::Less, guard(|| pa.op_ge(pb)))?;
    expect_bits(&nm("cmp"), &args, ord_code(o), guard(|| ord_code(pa.cmp(pb))))?;
    expect_bits(&nm("Ord::cmp"), &args, ord_code(o), guard(|| ord_code(pa.op_cmp(pb))))?;
    expect_bits(&nm("partial_cmp"), &args, ord_code(o), guard(|| pa.op_partial_cmp(pb).map(ord_code).unwrap_or(9)))?;
    let (mn, mx) = if o == Ordering::Greater { (b, a) } else { (a, b) };
    expect_bits(&nm("Ord::min"), &args, mn as u64, guard(|| pa.ord_min(pb).tb() as u64))?;
    expect_bits(&nm("Ord::max"), &args, mx as u64, guard(|| pa.ord_max(pb).tb() as u64))?;
    expect_bits(&nm("-x"), &[a as u64], a.wrapping_neg() as u64, guard(|| pa.op_neg().tb() as u64))?;
    bool_fail(nm("is_nar"), &[a as u64], da.is_none(), guard(|| pa.is_nar()))?;
    // clamp(a; lo=min(b,c), hi=max(b,c))
    let (lo, hi, dlo, dhi) = if order(&db, &dc) == Ordering::Greater { (c, b, &dc, &db) } else { (b, c, &db, &dc) };
    let want = if order(&da, dlo) == Ordering::Less {
        lo
    } else if order(&da, dhi) == Ordering::Greater {
        hi
    } else {
        a
    };
    l.eval();
    expect_bits(&nm("Ord::clamp"), &[a as u64, lo as u64, hi as u64], want as u64, guard(|| pa.ord_clamp(X::fb(lo), X::fb(hi)).tb() as u64))?;
    let _ = pc;
    if let (Some(x), Some(y)) = (&da, &db) {
        if a != b && (x.neg != y.neg || ((a ^ b) >> sh) < 4) {
            l.nontrivial(hash_args(X::N as u64 * 4 + X::ES as u64, &args));
        }
    }
    Ok(())
}

pub fn px_dispatch(es: u32, n: u32, a: u32, b: u32, c: u32, l: &mut Local) -> Result<(), Viol> {
    let m = (gen::mask(n) as u32) << (32 - n);
    let (a, b, c) = (a & m, b & m, c & m);
    if es == 1 {
        with_n!(n, N, px_pair::<PxE1<N>>(a, b, c, l))
    } else {
        with_n!(n, N, px_pair::<PxE2<N>>(a, b, c, l))
    }
}

fn px_triple(n: u32) -> BoxedStrategy<(u32, u32, u32)> {
    let sh = 32 - n;
    (gen::bits(n), gen::bits(n), gen::bits(n), 0u8..8, 0u64..4)
        .prop_map(move |(a, b, c, rel, k)| {
            let m = gen::mask(n);
            let b = match rel {
                0 => a,
                1 => a.wrapping_neg() & m,
                2 => a.wrapping_add(1 + k % 2) & m,
                3 => a.wrapping_sub(1 + k % 2) & m,
                _ => b,
            };
            ((a << sh) as u32, (b << sh) as u32, (c << sh) as u32)
        })
        .boxed()
}

fn fixed_all<P: PT>(rep: &mut Report, pairs: u64, triples: u64) {
    let (n, es) = (P::N, P::ES);
    rep.generated(&format!("{} generated pairs: comparisons, min/max, copysign", P::NAME), pairs, || gen::pair(n, es), |&(a, b), l| pair::<P>(a, b, l));
    rep.generated(&format!("{} generated triples: clamp (lo <= hi by construction)", P::NAME), triples, || (gen::bits(n), gen::pair(n, es)), |&(x, (p, q)), l| {
        // order (p,q) by the independent decoder so that lo <= hi
        let (lo, hi) = if order(&dec::<P>(p), &dec::<P>(q)) == Ordering::Greater { (q, p) } else { (p, q) };
        clamp3::<P>(x, lo, hi, l)
    });
}

pub fn run(rep: &mut Report) {
    let tier = rep.cfg.tier;
    rep.rule = "operand pairs/triples of one type: ==,<,<=,>,>=,cmp,partial_cmp (inherent and trait spellings), min/max/clamp (must return the right input bit-identically), copysign, and per value neg (exact, involution), abs, signum, is_sign_*, is_zero, is_nar/is_nan/is_finite, classify — all judged on independently decoded exact values with NaR below every real and equal only to itself; sign functions judged for real arguments only. P8: all pairs, all 2^24 clamp triples; P16: all values unary, generated pairs (thorough: all 2^32 pairs); P32: generated; PxE1/PxE2 for every N in 2..=32: all pairs for N <= 8 (x 4 third operands for clamp), generated otherwise. Non-trivial = distinct real operands of opposite sign or differing only in the last two bits (pairs), clamp that actually clamps, non-zero real (unary); distinct by (type, operands)."
        .into();
    rep.assumptions = std_assumptions();
    super::run_corpus(rep, replay);
    rep.exhaustive("P8E0 all 2^16 pairs", 1 << 16, |i, l| pair::<P8E0>(i >> 8, i & 0xff, l));
    rep.exhaustive("P8E0 all 2^24 clamp triples", 1 << 24, |i, l| clamp3::<P8E0>(i >> 16, (i >> 8) & 0xff, i & 0xff, l));
    rep.exhaustive("P8E0 all values: neg, abs, signum, classification", 1 << 8, |i, l| unary::<P8E0>(i, l));
    rep.exhaustive("P16E1 all values: neg, abs, signum, classification", 1 << 16, |i, l| unary::<P16E1>(i, l));
    rep.generated("P32E2 generated values: neg, abs, signum, classification", tier.pick(300_000, 3_000_000), || gen::bits(32), |&a, l| unary::<P32E2>(a, l));
    fixed_all::<P16E1>(rep, tier.pick(300_000, 3_000_000), tier.pick(200_000, 2_000_000));
    fixed_all::<P32E2>(rep, tier.pick(400_000, 4_000_000), tier.pick(200_000, 2_000_000));
    if tier == Tier::Thorough {
        rep.exhaustive("P16E1 all 2^32 pairs", 1 << 32, |i, l| pair::<P16E1>(i >> 16, i & 0xffff, l));
    } else {
        let off = rep.cfg.seed % 64;
        rep.lattice("P16E1 every 64th of the 2^32 pairs (offset = seed mod 64)", 1 << 26, move |i, l| {
            let v = i * 64 + off;
            pair::<P16E1>(v >> 16, v & 0xffff, l)
        });
    }
    for es in 1..=2u32 {
        // N <= 8: all pairs x 4 third operands
        for n in 2..=8u32 {
            let k = 1u64 << n;
            rep.exhaustive(&format!("PxE{}<{}> all {} pairs x 4 clamp partners", es, n, k * k), k * k * 4, move |i, l| {
                let sh = 32 - n;
                let (a, b) = ((i / 4) / k, (i / 4) % k);
                let c = [0u64, k >> 1, (k >> 2) | 1, k - 1][(i % 4) as usize];
                px_dispatch(es, n, (a << sh) as u32, (b << sh) as u32, (c << sh) as u32, l)
            });
        }
        let per = tier.pick(20_000, 400_000);
        for n in 9..=32u32 {
            rep.generated(&format!("PxE{}<{}> generated pairs/triples", es, n), per, move || px_triple(n), move |&(a, b, c), l| px_dispatch(es, n, a, b, c, l));
        }
    }
}

pub fn replay(op: &str, args: &[u64]) -> Result<(), Viol> {
    let mut l = Local::new(false);
    let (ty, name) = split_op(op);
    if ty.starts_with("PxE") {
        let es = if ty.starts_with("PxE1") { 1 } else { 2 };
        let n: u32 = ty.trim_end_matches('>').split('<').nth(1).and_then(|s| s.parse().ok()).unwrap_or(32);
        if name == "Ord::clamp" {
            return px_dispatch(es, n, arg(args, 0) as u32, arg(args, 1) as u32, arg(args, 2) as u32, &mut l);
        }
        return px_dispatch(es, n, arg(args, 0) as u32, arg(args, 1) as u32, arg(args, 1) as u32, &mut l);
    }
    fn all<P: PT>(name: &str, args: &[u64], l: &mut Local) -> Result<(), Viol> {
        if name.contains("clamp") {
            return clamp3::<P>(arg(args, 0), arg(args, 1), arg(args, 2), l);
        }
        if args.len() >= 2 {
            pair::<P>(args[0], args[1], l)?;
        }
        unary::<P>(arg(args, 0), l)
    }
    match ty {
        "P8E0" => all::<P8E0>(name, args, &mut l),
        "P16E1" => all::<P16E1>(name, args, &mut l),
        _ => all::<P32E2>(name, args, &mut l),
    }
}
#[allow(dead_code)]
fn _unused() {
    let _ = json!(0);
}
