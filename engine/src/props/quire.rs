//! Quire history interpreter shared by C04 and C12: a generated `Vec<Step>` is applied to the real
//! quire and to an exact model (dyadic sum or NaR) in lock-step; the invariant is checked after every step.
#![allow(dead_code)]
use super::util::*;
use crate::core::*;
use crate::gen;
use crate::pt::{PT, QT};
use crate::refmodel::*;
use proptest::prelude::*;
use serde_json::json;

pub const CODES: [&str; 17] = [
    "+=(a,b)", "-=(a,b)", "+=a", "-=a", "add_product", "sub_product", "+=(a,(b,c))", "-=(a,(b,c))", "+=(a,(b,c,d))", "+=((a,b),(c,d))", "-=((a,b),(c,d))", "+=(a,[..])", "-=(a,[..])", "neg", "clear",
    "Quire::add_product", "Quire::sub_product",
];
pub const NEG: u64 = 13;
pub const CLEAR: u64 = 14;

#[derive(Clone, Debug)]
pub struct Step {
    pub code: u64,
    pub p: [u64; 4],
}

/// args layout: [steps..., each 5 words: code, a, b, c, d] then one trailing word: permutation seed
pub fn encode_history(steps: &[Step], perm: u64) -> Vec<u64> {
    let mut v = vec![];
    for s in steps {
        v.push(s.code);
        v.extend_from_slice(&s.p);
    }
    v.push(perm);
    v
}
pub fn decode_history(args: &[u64]) -> (Vec<Step>, u64) {
    let n = args.len().saturating_sub(1) / 5;
    let mut steps = vec![];
    for i in 0..n {
        steps.push(Step { code: args[i * 5], p: [args[i * 5 + 1], args[i * 5 + 2], args[i * 5 + 3], args[i * 5 + 4]] });
    }
    (steps, args.last().copied().unwrap_or(0))
}

/// two's-complement image of s * 2^FRAC in `bits` bits as eight u64 limbs, most significant first
pub fn image_of(s: &Dy, frac: u32, bits: u32) -> Option<[u64; 8]> {
    let mut limbs = [0u64; 8];
    if s.is_zero() {
        return Some(limbs);
    }
    let sh = s.exp + frac as i32;
    if sh < 0 {
        return None; // not a multiple of the quire's ulp: cannot happen for sums of products
    }
    if s.mag.bitlen() + sh as u32 >= bits {
        return None; // outside the quire's range
    }
    let m = s.mag.shl(sh as u32);
    for i in 0..8 {
        limbs[7 - i] = m.0[i];
    }
    if s.neg {
        // two's complement over `bits` bits
        let mut carry = 1u64;
        for i in (0..8).rev() {
            let (v, c) = (!limbs[i]).overflowing_add(carry);
            limbs[i] = v;
            carry = c as u64;
        }
        let used = (bits / 64) as usize; // number of full limbs
        if bits < 64 {
            limbs[7] &= (1u64 << bits) - 1;
            for l in limbs.iter_mut().take(7) {
                *l = 0;
            }
        } else {
            for l in limbs.iter_mut().take(8 - used) {
                *l = 0;
            }
        }
    }
    Some(limbs)
}
pub fn nar_image(bits: u32) -> [u64; 8] {
    let mut l = [0u64; 8];
    let pos = bits - 1;
    l[7 - (pos / 64) as usize] = 1u64 << (pos % 64);
    l
}
pub fn img_hex(i: &[u64; 8]) -> String {
    i.iter().map(|x| format!("{:016x}", x)).collect::<Vec<_>>().join("_")
}

/// model state
#[derive(Clone, Copy)]
pub enum M {
    Sum(Dy),
    NaR,
}

/// signed product / single terms of one step, in application order: (negative?, a, Some(b) | None)
pub fn terms_of(st: &Step) -> Vec<(bool, u64, Option<u64>)> {
    let [a, b, c, d] = st.p;
    match st.code {
        0 | 4 | 15 => vec![(false, a, Some(b))],
        1 | 5 | 16 => vec![(true, a, Some(b))],
        2 => vec![(false, a, None)],
        3 => vec![(true, a, None)],
        6 => vec![(false, a, Some(b)), (false, a, Some(c))],
        7 => vec![(true, a, Some(b)), (true, a, Some(c))],
        8 => vec![(false, a, Some(b)), (false, a, Some(c)), (false, a, Some(d))],
        9 => vec![(false, a, Some(c)), (false, a, Some(d)), (false, b, Some(c)), (false, b, Some(d))],
        10 => vec![(true, a, Some(c)), (true, a, Some(d)), (true, b, Some(c)), (true, b, Some(d))],
        11 | 12 => {
            // array length 1 + (d >> 60) % 4 with elements b, c, b^c-derived
            let k = 1 + ((d >> 60) % 4) as usize;
            let arr = arr_of(st);
            arr[..k].iter().map(|&e| (st.code == 12, a, Some(e))).collect()
        }
        _ => vec![],
    }
}
pub fn arr_of(st: &Step) -> [u64; 4] {
    let [_, b, c, d] = st.p;
    // low bits of d carry a fourth operand; the top nibble carries the length
    [b, c, d & 0xffff_ffff, b ^ 1]
}

pub fn apply_real<Q: QT>(q: &mut Q, st: &Step) {
    let f = <Q::P as PT>::fb;
    let [a, b, c, d] = st.p;
    match st.code {
        0 => q.add_tuple(f(a), f(b)),
        1 => q.sub_tuple(f(a), f(b)),
        2 => q.add_posit(f(a)),
        3 => q.sub_posit(f(a)),
        4 => q.add_product(f(a), f(b)),
        5 => q.sub_product(f(a), f(b)),
        6 => q.add_t12(f(a), f(b), f(c)),
        7 => q.sub_t12(f(a), f(b), f(c)),
        8 => q.add_t13(f(a), f(b), f(c), f(d)),
        9 => q.add_t22(f(a), f(b), f(c), f(d)),
        10 => q.sub_t22(f(a), f(b), f(c), f(d)),
        11 | 12 => {
            let k = 1 + ((d >> 60) % 4) as usize;
            let m = gen::mask(<Q::P as PT>::N);
            let arr: Vec<Q::P> = arr_of(st)[..k].iter().map(|&e| f(e & m)).collect();
            if st.code == 11 {
                q.add_arr(f(a), &arr)
            } else {
                q.sub_arr(f(a), &arr)
            }
        }
        13 => q.neg(),
        14 => q.clear(),
        15 => q.t_add_product(f(a), f(b)),
        _ => q.t_sub_product(f(a), f(b)),
    }
}

pub fn apply_model<P: PT>(m: M, st: &Step) -> M {
    match st.code {
        13 => match m {
            M::Sum(s) => M::Sum(s.neg()),
            M::NaR => M::NaR,
        },
        14 => M::Sum(Dy::ZERO),
        _ => {
            let mut m = m;
            let mask = gen::mask(P::N);
            for (neg, a, b) in terms_of(st) {
                let da = dec::<P>(a & mask);
                let db = match b {
                    Some(b) => dec::<P>(b & mask),
                    None => Some(Dy::new(false, 1, 0)),
                };
                m = match (m, da, db) {
                    (M::Sum(s), Some(x), Some(y)) => {
                        let t = x.mul(&y);
                        M::Sum(if neg { s.sub(&t) } else { s.add(&t) })
                    }
                    _ => M::NaR,
                };
            }
            m
        }
    }
}

/// do all partial sums while applying the terms of `st` one by one stay inside the quire's range?
pub fn step_stays_in_range<Q: QT>(m: &M, st: &Step) -> bool {
    let mut cur = *m;
    let mask = gen::mask(<Q::P as PT>::N);
    for (neg, a, b) in terms_of(st) {
        let one = Step { code: if b.is_some() { if neg { 1 } else { 0 } } else if neg { 3 } else { 2 }, p: [a & mask, b.unwrap_or(0) & mask, 0, 0] };
        cur = apply_model::<Q::P>(cur, &one);
        if let M::Sum(s) = &cur {
            if image_of(s, Q::FRAC, Q::BITS).is_none() {
                return false;
            }
        }
    }
    true
}

pub struct Flags {
    pub c12: bool,
}

/// the invariant after a step
pub fn check_state<Q: QT>(q: &Q, m: &M, what: &str, args: &[u64], step: usize) -> Result<(), Viol> {
    let nm = |s: &str| format!("{}.{}@step{}({})", Q::NAME, s, step, what);
    let (want_img, want_zero, want_nar, want_posit) = match m {
        M::NaR => (nar_image(Q::BITS), false, true, nar::<Q::P>()),
        M::Sum(s) => {
            let img = image_of(s, Q::FRAC, Q::BITS).expect("model sum must stay inside the quire range by construction");
            (img, s.is_zero(), false, rnd::<Q::P, _>(s))
        }
    };
    let got_img = guard(|| q.image());
    match got_img {
        Ok(i) if i == want_img => {}
        Ok(i) => return Err(Viol::wrong_s(nm("to_bits"), args, img_hex(&want_img), img_hex(&i))),
        Err(e) => return Err(Viol::panic(nm("to_bits"), args, img_hex(&want_img), e)),
    }
    expect_bits(&nm("is_zero"), args, want_zero as u64, guard(|| q.is_zero() as u64))?;
    expect_bits(&nm("is_nar"), args, want_nar as u64, guard(|| q.is_nar() as u64))?;
    expect_bits(&nm("to_posit"), args, want_posit, guard(|| q.to_posit().tb()))?;
    expect_bits(&nm("P::from(&Q)"), args, want_posit, guard(|| q.conv_to().tb()))?;
    expect_bits(&nm("P::from(Q)"), args, want_posit, guard(|| q.conv_to_val().tb()))?;
    Ok(())
}

/// run one history; returns the violation of the first failing step
pub fn run_history<Q: QT>(steps: &[Step], perm: u64, fl: &Flags, l: &mut Local) -> Result<(), Viol> {
    let args = encode_history(steps, perm);
    let mut q = match guard(Q::init) {
        Ok(q) => q,
        Err(e) => return Err(Viol::panic(format!("{}.init", Q::NAME), &args, "a cleared quire".into(), e)),
    };
    let mut m = M::Sum(Dy::ZERO);
    check_state(&q, &m, "init", &args, 0)?;
    let mut had_nar = false;
    let mut mixed = (false, false);
    let mut nterms = 0;
    let mut applied: Vec<usize> = vec![];
    for (i, st) in steps.iter().enumerate() {
        let m2 = apply_model::<Q::P>(m, st);
        // range guard: a step that would take the exact sum outside the quire's range is outside the
        // property's domain; it is not applied (only long thorough-tier histories of Q8 ever get here)
        if let M::Sum(s) = &m2 {
            if image_of(s, Q::FRAC, Q::BITS).is_none() {
                l.label("dropped_for_range");
                continue;
            }
        }
        // intermediate sums inside a multi-product step must stay in range too
        if !step_stays_in_range::<Q>(&m, st) {
            l.label("dropped_for_range");
            continue;
        }
        if let Err(e) = guard(|| apply_real(&mut q, st)) {
            return Err(Viol::panic(format!("{}.{}@step{}", Q::NAME, CODES[st.code as usize], i + 1), &args, "no panic".into(), e));
        }
        m = m2;
        applied.push(i);
        l.eval();
        for (neg, _, _) in terms_of(st) {
            nterms += 1;
            if neg {
                mixed.1 = true
            } else {
                mixed.0 = true
            }
        }
        if matches!(m, M::NaR) {
            had_nar = true;
        }
        check_state(&q, &m, CODES[st.code as usize], &args, i + 1)?;
    }
    // order independence (metamorphic): the same terms, permuted, give the same image
    let plain = steps.iter().all(|s| s.code != NEG && s.code != CLEAR);
    if plain && applied.len() >= 2 {
        let mut idx: Vec<usize> = applied.clone();
        idx.sort_by_key(|&i| splitmix(perm ^ (i as u64).wrapping_mul(0x9E37_79B9_7F4A_7C15)));
        // the permuted order must itself keep every partial sum inside the range (domain of the property)
        let mut mm = M::Sum(Dy::ZERO);
        let mut in_range = true;
        for &i in &idx {
            if !step_stays_in_range::<Q>(&mm, &steps[i]) {
                in_range = false;
                break;
            }
            mm = apply_model::<Q::P>(mm, &steps[i]);
        }
        if in_range {
            let mut q2 = Q::init();
            for &i in &idx {
                if let Err(e) = guard(|| apply_real(&mut q2, &steps[i])) {
                    return Err(Viol::panic(format!("{}.permuted", Q::NAME), &args, "no panic".into(), e));
                }
            }
            l.eval();
            let (i1, i2) = (q.image(), q2.image());
            if i1 != i2 {
                return Err(Viol::wrong_s(format!("{}.order_independence", Q::NAME), &args, img_hex(&i1), img_hex(&i2)));
            }
        } else {
            l.label("permutation_skipped(range)");
        }
    }
    // labels / non-triviality
    let cancel = match &m {
        M::Sum(s) => {
            // |sum| far below the largest term
            let mut big = i64::MIN;
            for st in steps {
                for (_, a, b) in terms_of(st) {
                    let mask = gen::mask(<Q::P as PT>::N);
                    if let (Some(x), Some(y)) = (dec::<Q::P>(a & mask), b.map(|b| dec::<Q::P>(b & mask)).unwrap_or(Some(Dy::new(false, 1, 0)))) {
                        let t = x.mul(&y);
                        if !t.is_zero() {
                            big = big.max(t.mag.bitlen() as i64 + t.exp as i64);
                        }
                    }
                }
            }
            !s.is_zero() && big > i64::MIN && (s.mag.bitlen() as i64 + s.exp as i64) < big - 40 || (s.is_zero() && nterms >= 2)
        }
        M::NaR => false,
    };
    let multi_limb = match &m {
        M::Sum(s) if !s.is_zero() => {
            let lo = s.exp + Q::FRAC as i32;
            let hi = lo + s.mag.bitlen() as i32 - 1;
            lo / 64 != hi / 64
        }
        _ => false,
    };
    if (nterms >= 3 && mixed.0 && mixed.1) || cancel || multi_limb || had_nar {
        l.nontrivial(hash_args(Q::BITS as u64, &args));
    }
    if cancel {
        l.label("cancellation");
    }
    if multi_limb {
        l.label("sum_spans_limbs");
    }
    if had_nar {
        l.label("nar_injected");
    }
    if steps.iter().any(|s| s.code == CLEAR) {
        l.label("with_clear");
    }
    if steps.iter().any(|s| s.code == NEG) {
        l.label("with_neg");
    }
    l.label(match steps.len() {
        0..=2 => "len<=2",
        3..=8 => "len3-8",
        _ => "len>=9",
    });
    l.sample(|| json!({"quire": Q::NAME, "history": steps.iter().map(|s| format!("{} {:x?}", CODES[s.code as usize], s.p)).collect::<Vec<_>>()}));

    if fl.c12 {
        c12_tail::<Q>(q, &m, &args, l)?;
    }
    Ok(())
}

/// C12: on the reached state: from_bits(to_bits), neg twice, split into two / three posits, clear
fn c12_tail<Q: QT>(q: Q, m: &M, args: &[u64], l: &mut Local) -> Result<(), Viol> {
    let nm = |s: &str| format!("{}.{}@final", Q::NAME, s);
    let img = q.image();
    l.evaln(5);
    // from_bits(to_bits(q)) reproduces q
    match guard(|| Q::from_image(img).image()) {
        Ok(i) if i == img => {}
        Ok(i) => return Err(Viol::wrong_s(nm("from_bits(to_bits)"), args, img_hex(&img), img_hex(&i))),
        Err(e) => return Err(Viol::panic(nm("from_bits(to_bits)"), args, img_hex(&img), e)),
    }
    // neg: image of -s ; neg twice: identity on bits
    {
        let mut q2 = Q::from_image(img);
        let want = match m {
            M::NaR => nar_image(Q::BITS),
            M::Sum(s) => image_of(&s.neg(), Q::FRAC, Q::BITS).unwrap(),
        };
        match guard(|| {
            q2.neg();
            let a = q2.image();
            q2.neg();
            (a, q2.image())
        }) {
            Ok((a, b)) => {
                if a != want {
                    return Err(Viol::wrong_s(nm("neg"), args, img_hex(&want), img_hex(&a)));
                }
                if b != img {
                    return Err(Viol::wrong_s(nm("neg(neg)"), args, img_hex(&img), img_hex(&b)));
                }
            }
            Err(e) => return Err(Viol::panic(nm("neg"), args, img_hex(&want), e)),
        }
    }
    if let M::Sum(s) = m {
        // residual split with exact subtraction
        let p1 = rnd::<Q::P, _>(s);
        let r1 = s.sub(&dec::<Q::P>(p1).unwrap());
        let p2 = rnd::<Q::P, _>(&r1);
        let r2 = r1.sub(&dec::<Q::P>(p2).unwrap());
        let p3 = rnd::<Q::P, _>(&r2);
        match guard(|| {
            let (a, b) = Q::from_image(img).into_two();
            (a.tb(), b.tb())
        }) {
            Ok((a, b)) if a == p1 && b == p2 => {}
            Ok((a, b)) => return Err(Viol::wrong_s(nm("into_two_posits"), args, format!("({:#x},{:#x})", p1, p2), format!("({:#x},{:#x})", a, b))),
            Err(e) => return Err(Viol::panic(nm("into_two_posits"), args, format!("({:#x},{:#x})", p1, p2), e)),
        }
        match guard(|| {
            let (a, b, c) = Q::from_image(img).into_three();
            (a.tb(), b.tb(), c.tb())
        }) {
            Ok((a, b, c)) if a == p1 && b == p2 && c == p3 => {}
            Ok((a, b, c)) => return Err(Viol::wrong_s(nm("into_three_posits"), args, format!("({:#x},{:#x},{:#x})", p1, p2, p3), format!("({:#x},{:#x},{:#x})", a, b, c))),
            Err(e) => return Err(Viol::panic(nm("into_three_posits"), args, format!("({:#x},{:#x},{:#x})", p1, p2, p3), e)),
        }
        if p2 != 0 {
            l.label("p2_nonzero");
        }
        if p3 != 0 {
            l.label("p3_nonzero");
        }
        if s.neg {
            l.label("negative_sum");
        }
    }
    // clear makes the quire zero
    let mut q3 = q;
    match guard(|| {
        q3.clear();
        (q3.image(), q3.is_zero(), q3.is_nar())
    }) {
        Ok((i, z, n)) if i == [0u64; 8] && z && !n => Ok(()),
        Ok((i, z, n)) => Err(Viol::wrong_s(nm("clear"), args, "zero image, is_zero".into(), format!("{} is_zero={} is_nar={}", img_hex(&i), z, n))),
        Err(e) => Err(Viol::panic(nm("clear"), args, "zero image".into(), e)),
    }
}

// ---------------------------------------------------------------- generator

/// tie-directed history: two single posits whose exact sum is a rounding threshold of the posit
/// format (or within one ulp of an operand of it), then a product far below the result's ulp with a
/// drawn sign (the sticky bit that must decide the rounding lives in a distant limb), then a short
/// random tail.
pub fn tie_history<P: PT>() -> BoxedStrategy<(Vec<Step>, u64)> {
    tie_history_w::<P>(P::N)
}

/// the same with the rounding threshold taken from the `w`-bit format of the same exponent size
/// (w <= P::N): posits of one exponent size nest, so a w-bit pattern shifted left is a P pattern of
/// the same value.  Used where the accumulator is rounded to a narrower posit (Q32E2 -> PxE2<w>).
pub fn tie_history_w<P: PT>(w: u32) -> BoxedStrategy<(Vec<Step>, u64)> {
    let (n, es) = (P::N, P::ES);
    let ms = gen::max_scale(n, es);
    let w = w.clamp(2, n);
    (gen::tie_pair_ops(w, es, 0, 1), any::<u64>(), history::<P>(false, 2)).prop_map(move |((_, a, b), raw, (tail, perm))| {
        let (a, b) = (a << (n - w), b << (n - w));
        let mut steps = vec![Step { code: 2, p: [a, 0, 0, 0] }, Step { code: 2, p: [b, 0, 0, 0] }];
        // tiny product at a drawn depth below the sum (uniform over the whole reach of the quire), half of
        // the time a pure power of two: then the only sticky information is ONE bit at that depth
        let sv = gen::scale_of(n, es, a).unwrap_or(0).max(gen::scale_of(n, es, b).unwrap_or(0));
        // a quarter of the depths sit next to the accumulator's limb size (the sticky masks of to_posit are
        // built from 64 - lz / 63 - lz: seeded C12-r3-m1, C14-r3-m1, C18-r3-m1 all lose exactly bit L-64)
        const LIMBISH: [i32; 12] = [63, 64, 65, 127, 128, 129, 191, 192, 193, 31, 32, 33];
        let depth = if (raw >> 52) & 3 == 0 { LIMBISH[(raw >> 54) as usize % 12] } else { w as i32 / 2 + (raw % (2 * ms as u64 + 8)) as i32 };
        let target = (sv - depth).max(-2 * ms);
        let s1 = (target / 2 + ((raw >> 16) % 9) as i32 - 4).clamp(-ms, ms);
        let s2 = (target - s1).clamp(-ms, ms);
        let pure = raw >> 58 & 1 == 1;
        let ta = gen::make(n, es, false, s1, if pure { 0 } else { (raw >> 32) << 60 });
        let tb = gen::make(n, es, false, s2, if pure { 0 } else { (raw >> 40) << 61 });
        match (raw >> 60) % 3 {
            0 => steps.push(Step { code: 0, p: [ta, tb, 0, 0] }),
            1 => steps.push(Step { code: 1, p: [ta, tb, 0, 0] }),
            _ => {}
        }
        if raw >> 59 & 1 == 1 {
            steps.extend(tail);
        }
        (steps, perm)
    })
    .boxed()
}

/// operands: a pool of 4 (so that terms cancel) plus fresh draws; extremes at high weight
pub fn history<P: PT>(allow_neg: bool, maxlen: usize) -> BoxedStrategy<(Vec<Step>, u64)> {
    let n = P::N;
    let codes: Vec<u64> = (0..17u64).filter(|&c| allow_neg || c != NEG).collect();
    let opnd = move || prop_oneof![3 => gen::real_bits(n), 1 => gen::bits(n)];
    (
        proptest::collection::vec(opnd(), 4),
        proptest::collection::vec((proptest::sample::select(codes), proptest::collection::vec((0u8..10, opnd()), 4), any::<u64>()), 0..=maxlen),
        0u8..10,
        any::<u64>(),
    )
        .prop_map(move |(pool, raw, nar_sel, perm)| {
            let m = gen::mask(n);
            let mut steps: Vec<Step> = raw
                .into_iter()
                .map(|(code, sel, extra)| {
                    let mut p = [0u64; 4];
                    for i in 0..4 {
                        let (k, fresh) = sel[i];
                        p[i] = match k {
                            0..=3 => pool[k as usize],
                            4 => pool[(k as usize + i) % 4].wrapping_neg() & m,
                            _ => fresh,
                        };
                        // NaR only through explicit injection below (so that most histories stay real)
                        if p[i] == gen::nar(n) {
                            p[i] = gen::nar(n) + 1;
                        }
                    }
                    if code == 11 || code == 12 {
                        // array spelling: top nibble of d = length selector, low 32 bits = fourth operand
                        p[3] = (p[3] & 0xffff_ffff & m) | (extra & 0xf000_0000_0000_0000);
                    }
                    Step { code, p }
                })
                .collect();
            // NaR injection in ~10 % of the histories
            if nar_sel == 0 && !steps.is_empty() {
                let i = (perm >> 8) as usize % steps.len();
                let j = (perm >> 20) as usize % 2;
                steps[i].p[j] = gen::nar(n);
            }
            (steps, perm)
        })
        .boxed()
}
