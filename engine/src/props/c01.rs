//! C01 — `+ - * /` correctly rounded for P8E0, P16E1, P32E2 (DESIGN.md section 6, C01).
use crate::core::*;
use crate::fastref as fr;
use crate::gen;
use crate::pt::PT;
use crate::refmodel::*;
use serde_json::json;
use softposit::{P16E1, P32E2, P8E0};

pub const OPS: [&str; 4] = ["add", "sub", "mul", "div"];

#[inline]
fn call<P: PT>(op: usize, spelling: usize, a: P, b: P) -> u64 {
    match (op, spelling) {
        (0, 0) => a.add(b),
        (1, 0) => a.sub(b),
        (2, 0) => a.mul(b),
        (3, 0) => a.div(b),
        (0, _) => a.op_add(b),
        (1, _) => a.op_sub(b),
        (2, _) => a.op_mul(b),
        (_, _) => a.op_div(b),
    }
    .tb()
}

pub fn reg_len(n: u32, bits: u64) -> u32 {
    let m = gen::mask(n);
    let p = if bits >> (n - 1) & 1 == 1 { bits.wrapping_neg() & m } else { bits };
    let body = p << (65 - n);
    let first = body >> 63;
    let run = if first == 1 { (!body).leading_zeros() } else { body.leading_zeros() };
    run.min(n - 1)
}

fn class_label(c: RClass) -> &'static str {
    match c {
        RClass::Zero => "res_zero",
        RClass::Exact => "res_exact",
        RClass::SatMax => "res_sat_max",
        RClass::SatMin => "res_sat_min",
        RClass::Tie => "res_tie",
        RClass::Inexact => "res_inexact",
    }
}

/// exact result of op on decoded operands: Ok(Some(class, bits)) or NaR
fn want_slow(n: u32, es: u32, op: usize, a: u64, b: u64) -> (u64, Option<RClass>) {
    let nar = gen::nar(n);
    match (decode(n, es, a), decode(n, es, b)) {
        (Some(x), Some(y)) => match op {
            0 => {
                let e = x.add(&y);
                (round_posit(n, es, &e), Some(classify(n, es, &e)))
            }
            1 => {
                let e = x.sub(&y);
                (round_posit(n, es, &e), Some(classify(n, es, &e)))
            }
            2 => {
                let e = x.mul(&y);
                (round_posit(n, es, &e), Some(classify(n, es, &e)))
            }
            _ => {
                if y.is_zero() {
                    (nar, None)
                } else {
                    let e = Quot(x, y);
                    (round_posit(n, es, &e), Some(classify(n, es, &e)))
                }
            }
        },
        _ => (nar, None),
    }
}

/// one pair, all four operators, both spellings, slow exact oracle
pub fn pair_slow<P: PT>(a: u64, b: u64, ops: &[usize], l: &mut Local) -> Result<(), Viol> {
    let (n, es) = (P::N, P::ES);
    let (pa, pb) = (P::fb(a), P::fb(b));
    let real = a != 0 && b != 0 && a != gen::nar(n) && b != gen::nar(n);
    for &op in ops {
        let (want, class) = want_slow(n, es, op, a, b);
        for sp in 0..2 {
            l.eval();
            let got = guard(|| call(op, sp, pa, pb));
            if got.as_ref().ok() != Some(&want) {
                return expect_bits(&format!("{}.{}{}", P::NAME, OPS[op], if sp == 1 { ".operator" } else { "" }), &[a, b], want, got);
            }
        }
        // the two clauses stated separately
        if let Some(c) = class {
            let nz = c != RClass::Zero;
            if nz && (want == 0 || want == gen::nar(n)) || !nz && want != 0 {
                panic!("oracle inconsistency: class {:?} want {:#x}", c, want);
            }
            l.label(class_label(c));
            if real && matches!(c, RClass::Tie | RClass::Inexact | RClass::SatMax | RClass::SatMin) {
                l.nontrivial(hash_args(op as u64, &[a, b]));
                if reg_len(n, want) + 4 >= n {
                    l.label("res_regime>=n-4");
                }
                if c == RClass::Tie {
                    l.sample(|| json!({"type": P::NAME, "op": OPS[op], "a": format!("{:#x}", a), "b": format!("{:#x}", b), "result": format!("{:#x}", want), "class": "tie"}));
                }
            }
        } else {
            l.label("res_nar");
        }
    }
    Ok(())
}

/// one pair, four operators, fast oracle (complete enumerations)
#[inline]
pub fn pair_fast<P: PT>(a: u64, b: u64, l: &mut Local) -> Result<(), Viol> {
    let (n, es) = (P::N, P::ES);
    let nar = gen::nar(n);
    let (pa, pb) = (P::fb(a), P::fb(b));
    let (fa, fb) = (fr::decode(n, es, a), fr::decode(n, es, b));
    let wants: [u64; 4] = match (fa, fb) {
        (Some(x), Some(y)) => [
            fr::encode(n, es, fr::add(x, y)),
            fr::encode(n, es, fr::add(x, fr::neg(y))),
            fr::encode(n, es, fr::mul(x, y)),
            if y.is_zero() { nar } else { fr::encode(n, es, fr::div(x, y)) },
        ],
        _ => [nar; 4],
    };
    l.evaln(4);
    let real = a != 0 && b != 0 && a != nar && b != nar;
    for op in 0..4 {
        let got = guard(|| call(op, 0, pa, pb));
        if got.as_ref().ok() != Some(&wants[op]) {
            return expect_bits(&format!("{}.{}", P::NAME, OPS[op]), &[a, b], wants[op], got);
        }
    }
    if real {
        // non-trivial: result not exactly representable (cheap test on the product only would bias; use add+mul)
        let (x, y) = (fa.unwrap(), fb.unwrap());
        let e = fr::mul(x, y);
        let back = fr::decode(n, es, wants[2]).unwrap();
        if !(back.norm().sig == e.norm().sig && back.norm().exp == e.norm().exp) {
            l.nontrivial(0);
        }
        if reg_len(n, wants[2]) + 4 >= n {
            l.label("mul_res_regime>=n-4");
        }
    }
    Ok(())
}

fn gen_sections<P: PT>(rep: &mut Report, pairs: u64, ties: u64, directed: u64) {
    let (n, es) = (P::N, P::ES);
    rep.generated(&format!("{} generated pairs (bits x relation)", P::NAME), pairs, || gen::pair(n, es), |&(a, b), l| pair_slow::<P>(a, b, &[0, 1, 2, 3], l));
    rep.generated(&format!("{} tie-directed (threshold built backwards)", P::NAME), ties, || gen::tie_pair(n, es), |&(op, a, b), l| pair_slow::<P>(a, b, &[op as usize], l));
    rep.generated(&format!("{} result-directed (result scale stratified)", P::NAME), directed, || gen::result_pair(n, es), |&(op, a, b), l| pair_slow::<P>(a, b, &[op as usize], l));
    rep.generated(&format!("{} sparse products (a*b = short leading part + one distant bit)", P::NAME), directed / 2, || gen::sparse_mul_pair(n, es), |&(a, b), l| pair_slow::<P>(a, b, &[2, 3], l));
}

/// all n-bit patterns whose regime run is at least `minrun` (both polarities, both signs)
pub fn extreme_lattice(n: u32, minrun: u32) -> Vec<u64> {
    let mut v = vec![];
    let m = gen::mask(n);
    // positive patterns: 0 [run x first] [!first] rest ; rest has n-2-run bits
    for run in minrun..=(n - 1) {
        for first in 0..2u64 {
            let rest = (n as i32 - 2 - run as i32).max(0) as u32;
            for f in 0..(1u64 << rest) {
                let mut p = if first == 1 { (1u64 << run) - 1 } else { 0 };
                if run < n - 1 {
                    p = (p << 1) | (1 - first);
                    p = (p << rest) | f;
                }
                if p == 0 {
                    continue;
                }
                v.push(p & m);
                v.push(p.wrapping_neg() & m);
            }
        }
    }
    v.sort();
    v.dedup();
    v
}

/// patterns with at most `k` fraction bits set below each possible regime/exponent head
pub fn sparse_lattice(n: u32, es: u32) -> Vec<u64> {
    let m = gen::mask(n);
    let mut v = vec![];
    for run in 1..=(n - 1) {
        for first in 0..2u64 {
            let rest = (n as i32 - 2 - run as i32).max(0) as u32; // exponent + fraction bits
            let mut heads = vec![];
            let mut p = if first == 1 { (1u64 << run) - 1 } else { 0 };
            if run < n - 1 {
                p = (p << 1) | (1 - first);
            }
            heads.push(p);
            for h in heads {
                let ebits = es.min(rest);
                for e in 0..(1u64 << ebits) {
                    let fb = rest - ebits;
                    let base = ((h << ebits) | e) << fb;
                    let mut fr_ = vec![0u64];
                    for i in 0..fb {
                        fr_.push(1 << i);
                        for j in 0..i {
                            fr_.push((1 << i) | (1 << j));
                        }
                    }
                    if fb > 0 {
                        fr_.push((1u64 << fb) - 1);
                    }
                    for f in fr_ {
                        let p = base | f;
                        if p != 0 {
                            v.push(p & m);
                        }
                    }
                }
            }
        }
    }
    v.sort();
    v.dedup();
    v
}

pub fn run(rep: &mut Report) {
    let tier = rep.cfg.tier;
    rep.rule = "pairs (a,b) of one posit type, each evaluated under + - * / in the const-method and operator spellings against the exact dyadic result rounded by the posit-standard rule (NaR for NaR operand / zero divisor). P8: all 2^16 pairs. P16/P32: proptest pairs from the bits x relation generator, tie-directed pairs built backwards from an (n+1)-bit threshold, result-directed pairs with stratified result scale; enumerated lattices of extreme-regime patterns; thorough adds all 2^32 P16 pairs. Non-trivial = both operands real and non-zero and the exact result is a tie, inexact or saturating; distinct = distinct (op,a,b)."
        .into();
    rep.assumptions = vec!["posit-standard (2022) rounding on the encoding is the meaning of 'the posit rule' (DESIGN.md 2.1)".into(), "refmodel.rs / fastref.rs are correct (cross-checked against each other and the Python Fraction vectors before every run)".into()];
    super::run_corpus(rep, replay);

    rep.exhaustive("P8E0 all 2^16 pairs x 4 ops x 2 spellings (exact oracle)", 1 << 16, |i, l| pair_slow::<P8E0>(i >> 8, i & 0xff, &[0, 1, 2, 3], l));

    match tier {
        Tier::Quick => {
            gen_sections::<P16E1>(rep, 600_000, 400_000, 400_000);
            gen_sections::<P32E2>(rep, 1_500_000, 1_000_000, 1_000_000);
            let off = rep.cfg.seed % 8;
            rep.lattice("P16E1 every 8th of the 2^32 pairs (offset = seed mod 8) x 4 ops (fast oracle)", 1 << 29, move |i, l| { let v = i * 8 + off; pair_fast::<P16E1>(v >> 16, v & 0xffff, l) });
        }
        Tier::Thorough => {
            gen_sections::<P16E1>(rep, 2_000_000, 1_000_000, 1_000_000);
            gen_sections::<P32E2>(rep, 40_000_000, 20_000_000, 20_000_000);
            rep.exhaustive("P16E1 all 2^32 pairs x 4 ops (fast oracle)", 1 << 32, |i, l| pair_fast::<P16E1>(i >> 16, i & 0xffff, l));
        }
    }
    // P32 extreme-regime lattice: every pair of patterns whose regime run is >= R
    let lat = extreme_lattice(32, if tier == Tier::Quick { 21 } else { 19 });
    let k = lat.len() as u64;
    rep.lattice(&format!("P32E2 all pairs of the {} patterns with regime run >= {} (fast oracle)", k, if tier == Tier::Quick { 21 } else { 19 }), k * k, |i, l| pair_fast::<P32E2>(lat[(i / k) as usize], lat[(i % k) as usize], l));
    // sparse-fraction lattice: every (regime, exponent) head with <= 2 fraction bits set
    let sp = sparse_lattice(32, 2);
    let sp: Vec<u64> = if tier == Tier::Quick {
        // deterministic subsample keyed by the seed: every 8th pattern
        let off = rep.cfg.seed % 8;
        sp.iter().copied().enumerate().filter(|(i, _)| *i as u64 % 8 == off).map(|x| x.1).collect()
    } else {
        sp
    };
    let k2 = sp.len() as u64;
    rep.lattice(&format!("P32E2 all pairs of {} sparse-fraction patterns (every regime/exponent head, <=2 fraction bits) (fast oracle)", k2), k2 * k2, |i, l| pair_fast::<P32E2>(sp[(i / k2) as usize], sp[(i % k2) as usize], l));
    let sp16 = sparse_lattice(16, 1);
    let k3 = sp16.len() as u64;
    rep.lattice(&format!("P16E1 all pairs of {} sparse-fraction patterns (fast oracle)", k3), k3 * k3, |i, l| pair_fast::<P16E1>(sp16[(i / k3) as usize], sp16[(i % k3) as usize], l));
}

pub fn replay(op: &str, args: &[u64]) -> Result<(), Viol> {
    let mut l = Local::new(false);
    let (ty, rest) = op.split_once('.').unwrap_or((op, ""));
    let opname = rest.split('.').next().unwrap_or("");
    let ops: Vec<usize> = match OPS.iter().position(|o| *o == opname) {
        Some(i) => vec![i],
        None => vec![0, 1, 2, 3],
    };
    let (a, b) = (args.first().copied().unwrap_or(0), args.get(1).copied().unwrap_or(0));
    match ty {
        "P8E0" => pair_slow::<P8E0>(a, b, &ops, &mut l),
        "P16E1" => pair_slow::<P16E1>(a, b, &ops, &mut l),
        _ => pair_slow::<P32E2>(a, b, &ops, &mut l),
    }
}
