//! C09 — round / floor / ceil / trunc / fract (DESIGN.md section 6, C09).
use super::util::*;
use crate::core::*;
use crate::gen;
use crate::pt::PT;
use crate::refmodel::*;
use proptest::prelude::*;
use serde_json::json;
use softposit::{P16E1, P32E2, P8E0};

pub const OPS: [&str; 5] = ["round", "floor", "ceil", "trunc", "fract"];

fn call<P: PT>(op: usize, a: P) -> u64 {
    match op {
        0 => a.round(),
        1 => a.floor(),
        2 => a.ceil(),
        3 => a.trunc(),
        _ => a.fract(),
    }
    .tb()
}

pub fn unary<P: PT>(a: u64, ops: &[usize], l: &mut Local) -> Result<(), Viol> {
    let d = dec::<P>(a);
    for &op in ops {
        l.eval();
        let want = match &d {
            None => nar::<P>(),
            Some(x) => {
                let e = match op {
                    0 => {
                        let (ng, m) = x.round_int_rne();
                        Dy { neg: ng, mag: m, exp: 0 }.norm()
                    }
                    1 => x.floor_int(),
                    2 => x.ceil_int(),
                    3 => x.trunc_int(),
                    _ => x.sub(&x.trunc_int()),
                };
                // the property promises an exactly representable result
                match classify(P::N, P::ES, &e) {
                    RClass::Zero | RClass::Exact => {}
                    c => panic!("oracle: {} of {:#x} is not representable ({:?})", OPS[op], a, c),
                }
                rnd::<P, _>(&e)
            }
        };
        let got = guard(|| call(op, P::fb(a)));
        if got.as_ref().ok() != Some(&want) {
            return expect_bits(&format!("{}.{}", P::NAME, OPS[op]), &[a], want, got);
        }
    }
    if let Some(x) = &d {
        let nonint = x.exp < 0;
        let small = x.cmp_abs(&Dy::new(false, 3, 0)) != core::cmp::Ordering::Greater;
        if nonint || small || x.neg {
            l.nontrivial(a);
        }
        if nonint {
            l.label("non_integer");
            // exact half: tie for round
            if x.exp == -1 {
                l.label("half_integer(tie for round)");
                l.sample(|| json!({"type": P::NAME, "a": hex(a), "value": x.to_f64_exact(), "round": hex(call(0, P::fb(a)))}));
            }
        }
        if small {
            l.label("|x|<=3 (hand-written branches)");
        }
        if x.neg {
            l.label("negative");
        }
    }
    Ok(())
}

/// fast oracle for complete scans: fixed-point split of the decoded value (integer part, 64
/// fractional bits); agrees with `unary` on every generated input (both run in the thorough tier)
#[inline]
pub fn unary_fast<P: PT>(a: u64, l: &mut Local) -> Result<(), Viol> {
    use crate::fastref as fr;
    l.evaln(5);
    let wants: [u64; 5] = match fdec::<P>(a) {
        None => [nar::<P>(); 5],
        Some(x) if x.sig == 0 => [0; 5],
        Some(x) => {
            let x = x.norm();
            let scale = x.exp + 127;
            let int = |neg: bool, m: u64| fenc::<P>(fr::from_u64(neg, m));
            if scale >= 60 {
                // far beyond the last fraction bit: already an integer
                [a, a, a, a, 0]
            } else if scale < -1 {
                // |x| < 1/2
                l.nontrivial(a);
                [0, if x.neg { int(true, 1) } else { 0 }, if x.neg { 0 } else { int(false, 1) }, 0, a]
            } else {
                let v: u128 = x.sig >> (63 - scale); // 64 fractional bits
                debug_assert!((v << (63 - scale)) == x.sig);
                let ip = (v >> 64) as u64;
                let fp = v as u64;
                if fp != 0 || ip <= 3 || x.neg {
                    l.nontrivial(a);
                }
                let half = 1u64 << 63;
                let r = if fp > half || (fp == half && ip & 1 == 1) { ip + 1 } else { ip };
                let fl = if x.neg && fp != 0 { ip + 1 } else { ip };
                let ce = if !x.neg && fp != 0 { ip + 1 } else { ip };
                let fract = if fp == 0 { 0 } else { fenc::<P>(fr::Fx { neg: x.neg, sig: fp as u128, exp: -64, sticky: false }) };
                [int(x.neg, r), int(x.neg, fl), int(x.neg, ce), int(x.neg, ip), fract]
            }
        }
    };
    for op in 0..5 {
        let got = guard(|| call(op, P::fb(a)));
        if got.as_ref().ok() != Some(&wants[op]) {
            return expect_bits(&format!("{}.{}", P::NAME, OPS[op]), &[a], wants[op], got);
        }
    }
    Ok(())
}

/// P32 inputs within +-2 ulp of integers and half-integers, plus structured bits
fn directed32() -> BoxedStrategy<u64> {
    prop_oneof![
        (0u64..(1 << 24), 0u32..24, -2i64..=2, any::<bool>(), any::<bool>()).prop_map(|(k, sh, d, half, neg)| {
            // value (k + half/2) * 2^-sh' style: integer or half-integer of random magnitude
            let k = (k >> sh).max(0);
            let x = Dy::new(neg, 2 * k + half as u64, -1);
            let b = round_posit(32, 2, &x);
            ((b as i64 + d) as u64) & 0xffff_ffff
        }),
        gen::bits(32),
    ]
    .boxed()
}

pub fn run(rep: &mut Report) {
    let tier = rep.cfg.tier;
    rep.rule = "every input pattern under round, floor, ceil, trunc, fract against exact dyadic round-half-even / floor / ceil / trunc / x - trunc(x); the oracle also asserts that the exact answer is representable. P8, P16: all patterns. P32: proptest inputs within +-2 ulp of integers and half-integers plus structured bits, and a strided scan in quick; all 2^32 patterns in thorough. Non-trivial = non-integer input, or |x| <= 3, or negative; distinct inputs."
        .into();
    rep.assumptions = std_assumptions();
    super::run_corpus(rep, replay);
    rep.exhaustive("P8E0 all 256 inputs x 5 functions", 1 << 8, |i, l| unary::<P8E0>(i, &[0, 1, 2, 3, 4], l));
    rep.exhaustive("P16E1 all 65536 inputs x 5 functions", 1 << 16, |i, l| unary::<P16E1>(i, &[0, 1, 2, 3, 4], l));
    match tier {
        Tier::Quick => {
            rep.generated("P32E2 directed inputs (integers / half-integers +-2ulp, structured bits)", 600_000, directed32, |&a, l| unary::<P32E2>(a, &[0, 1, 2, 3, 4], l));
            let off = rep.cfg.seed % 1024;
            rep.lattice("P32E2 every 1024th pattern (offset = seed mod 1024) x 5 functions (exact oracle)", 1 << 22, move |i, l| unary::<P32E2>(i * 1024 + off, &[0, 1, 2, 3, 4], l));
            rep.exhaustive("P32E2 all 2^32 patterns x 5 functions (fast oracle)", 1 << 32, |i, l| unary_fast::<P32E2>(i, l));
            rep.exhaustive("P16E1 all inputs again with the fast oracle (oracle cross-check)", 1 << 16, |i, l| unary_fast::<P16E1>(i, l));
        }
        Tier::Thorough => {
            rep.generated("P32E2 directed inputs (integers / half-integers +-2ulp, structured bits)", 6_000_000, directed32, |&a, l| unary::<P32E2>(a, &[0, 1, 2, 3, 4], l));
            rep.exhaustive("P32E2 all 2^32 inputs x 5 functions (fast oracle)", 1 << 32, |i, l| unary_fast::<P32E2>(i, l));
            let off = rep.cfg.seed % 64;
            rep.lattice("P32E2 every 64th pattern x 5 functions (exact oracle)", 1 << 26, move |i, l| unary::<P32E2>(i * 64 + off, &[0, 1, 2, 3, 4], l));
        }
    }
}

pub fn replay(op: &str, args: &[u64]) -> Result<(), Viol> {
    let mut l = Local::new(false);
    let (ty, name) = split_op(op);
    let ops: Vec<usize> = match OPS.iter().position(|o| *o == name) {
        Some(i) => vec![i],
        None => vec![0, 1, 2, 3, 4],
    };
    let a = arg(args, 0);
    match ty {
        "P8E0" => unary::<P8E0>(a, &ops, &mut l),
        "P16E1" => unary::<P16E1>(a, &ops, &mut l),
        _ => unary::<P32E2>(a, &ops, &mut l),
    }
}
