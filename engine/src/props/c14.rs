//! C14 — generic-width conversions are exact or correctly rounded for every N (DESIGN.md section 6, C14).
use super::quire::{apply_model, apply_real, history, Step, M as Model};
use super::util::*;
use crate::core::*;
use crate::gen;
use crate::px::{PX, PXC};
use crate::refmodel::*;
use crate::with_n;
use proptest::prelude::*;
use serde_json::json;
use softposit::{P32E2, PxE1, PxE2, Q32E2};

pub const KINDS: [&str; 19] = [
    "to_f64", "to_f32", "from_f64", "from_f32", "to_p8e0", "to_p16e1", "to_p32e2", "from_p8e0", "from_p16e1", "from_p32e2", "from_i32", "from_u32", "from_i64", "from_u64", "to_i32", "to_u32", "to_i64", "to_u64", "from_q32e2",
];

fn fcan(f: f64) -> u64 {
    if f.is_nan() { 0x7ff8_0000_0000_0000 } else { f.to_bits() }
}
fn fcan32(f: f32) -> u64 {
    if f.is_nan() { 0x7fc0_0000 } else { f.to_bits() as u64 }
}

/// compare both spellings with the expected value
fn both(name: String, args: &[u64], want: u64, got: Result<[u64; 2], String>) -> Result<(), Viol> {
    match got {
        Ok([a, b]) => {
            if a != want {
                return Err(Viol::wrong(name, args, want, a));
            }
            if b != want {
                return Err(Viol::wrong(format!("{}.From", name), args, want, b));
            }
            Ok(())
        }
        Err(e) => Err(Viol::panic(name, args, format!("{:#x}", want), e)),
    }
}

pub fn one<X: PXC>(kind: usize, x: u64, l: &mut Local) -> Result<(), Viol> {
    let (n, es) = (X::N, X::ES);
    let sh = 32 - n;
    let wmask = (gen::mask(n) as u32) << sh;
    let nm = || format!("{}.{}", X::name(), KINDS[kind]);
    let narx = 0x8000_0000u64;
    // a generic-width source pattern
    let src = (x as u32) & wmask;
    let dsrc = decode(n, es, (src >> sh) as u64);
    let p = X::fb(src);
    let aligned = |w: u64| (w << sh) & 0xffff_ffff;
    l.eval();
    match kind {
        0 => {
            let want = match &dsrc {
                None => fcan(f64::NAN),
                Some(d) => fcan(d.to_f64_exact().expect("exact in f64")),
            };
            if dsrc.is_some() && src != 0 {
                l.nontrivial(hash_args(kind as u64 * 64 + n as u64, &[src as u64]));
            }
            both(nm(), &[src as u64], want, guard(|| [fcan(p.to_f64()), fcan(p.conv_to_f64())]))
        }
        1 => {
            let want = match &dsrc {
                None => fcan32(f32::NAN),
                Some(d) => fcan32(d.to_f64_exact().expect("exact in f64") as f32),
            };
            if dsrc.is_some() && src != 0 {
                l.nontrivial(hash_args(kind as u64 * 64 + n as u64, &[src as u64]));
            }
            both(nm(), &[src as u64], want, guard(|| [fcan32(p.to_f32()), fcan32(p.conv_to_f32())]))
        }
        2 | 3 => {
            let (f, d) = if kind == 2 { (f64::from_bits(x), Dy::from_f64(f64::from_bits(x))) } else { (f32::from_bits(x as u32) as f64, Dy::from_f32(f32::from_bits(x as u32))) };
            let want = match &d {
                None => narx,
                Some(d) => {
                    if !matches!(classify(n, es, d), RClass::Zero | RClass::Exact) {
                        l.nontrivial(hash_args(kind as u64 * 64 + n as u64, &[x]));
                    }
                    aligned(round_posit(n, es, d))
                }
            };
            let _ = f;
            if kind == 2 {
                both(nm(), &[x], want, guard(|| [X::from_f64(f64::from_bits(x)).tb() as u64, X::conv_from_f64(f64::from_bits(x)).tb() as u64]))
            } else {
                both(nm(), &[x], want, guard(|| [X::from_f32(f32::from_bits(x as u32)).tb() as u64, X::conv_from_f32(f32::from_bits(x as u32)).tb() as u64]))
            }
        }
        4..=6 => {
            let (tn, tes) = [(8u32, 0u32), (16, 1), (32, 2)][kind - 4];
            let want = match &dsrc {
                None => gen::nar(tn),
                Some(d) => {
                    if !matches!(classify(tn, tes, d), RClass::Zero | RClass::Exact) {
                        l.nontrivial(hash_args(kind as u64 * 64 + n as u64, &[src as u64]));
                    }
                    round_posit(tn, tes, d)
                }
            };
            both(nm(), &[src as u64], want, guard(|| match kind {
                4 => p.to_p8(),
                5 => p.to_p16(),
                _ => p.to_p32(),
            }))
        }
        7..=9 => {
            let (sn, ses) = [(8u32, 0u32), (16, 1), (32, 2)][kind - 7];
            let sb = x & gen::mask(sn);
            let want = match decode(sn, ses, sb) {
                None => narx,
                Some(d) => {
                    if !matches!(classify(n, es, &d), RClass::Zero | RClass::Exact) {
                        l.nontrivial(hash_args(kind as u64 * 64 + n as u64, &[sb]));
                    }
                    aligned(round_posit(n, es, &d))
                }
            };
            both(nm(), &[sb], want, guard(|| {
                let r = match kind {
                    7 => X::from_p8(sb as u8),
                    8 => X::from_p16(sb as u16),
                    _ => X::from_p32(sb as u32),
                };
                [r[0] as u64, r[1] as u64]
            }))
        }
        10..=13 => {
            let (d, r): (Dy, Option<Result<[u64; 2], String>>) = match kind {
                10 => (Dy::from_i64(x as i32 as i64), if X::from_i32(0).is_some() { Some(guard(|| X::from_i32(x as i32).unwrap()).map(|r| [r[0] as u64, r[1] as u64])) } else { None }),
                11 => (Dy::from_u64(x as u32 as u64), if X::FAMILY == "PxE2" { Some(guard(|| X::from_u32(x as u32).unwrap()).map(|r| [r[0] as u64, r[1] as u64])) } else { None }),
                12 => (Dy::from_i64(x as i64), if X::FAMILY == "PxE2" { Some(guard(|| X::from_i64(x as i64).unwrap()).map(|r| [r[0] as u64, r[1] as u64])) } else { None }),
                _ => (Dy::from_u64(x), Some(guard(|| X::from_u64(x).unwrap()).map(|r| [r[0] as u64, r[1] as u64]))),
            };
            let r = match r {
                Some(r) => r,
                None => return Ok(()), // explicit todo!() stub in the crate
            };
            if !matches!(classify(n, es, &d), RClass::Zero | RClass::Exact) {
                l.nontrivial(hash_args(kind as u64 * 64 + n as u64, &[x]));
            }
            both(nm(), &[x], aligned(round_posit(n, es, &d)), r)
        }
        14..=17 => {
            let d = match &dsrc {
                Some(d) => d,
                None => return Ok(()), // NaR is outside the stated domain of to_int
            };
            if d.exp < 0 || d.neg {
                l.nontrivial(hash_args(kind as u64 * 64 + n as u64, &[src as u64]));
            }
            match kind {
                14 => both(nm(), &[src as u64], rne_clamped(d, i32::MIN as i128, i32::MAX as i128) as i32 as u32 as u64, guard(|| { let r = p.to_i32(); [r[0] as u32 as u64, r[1] as u32 as u64] })),
                15 => both(nm(), &[src as u64], rne_clamped(d, 0, u32::MAX as i128) as u64, guard(|| { let r = p.to_u32(); [r[0] as u64, r[1] as u64] })),
                16 => both(nm(), &[src as u64], rne_clamped(d, i64::MIN as i128, i64::MAX as i128) as i64 as u64, guard(|| { let r = p.to_i64(); [r[0] as u64, r[1] as u64] })),
                _ => both(nm(), &[src as u64], rne_clamped(d, 0, u64::MAX as i128) as u64, guard(|| p.to_u64())),
            }
        }
        _ => Ok(()),
    }
}

pub fn dispatch(es: u32, n: u32, kind: usize, x: u64, l: &mut Local) -> Result<(), Viol> {
    if es == 1 {
        with_n!(n, N, one::<PxE1<N>>(kind, x, l))
    } else {
        with_n!(n, N, one::<PxE2<N>>(kind, x, l))
    }
}

/// Q32E2 accumulator -> PxE2<N>
pub fn from_quire<const N: u32>(steps: &[Step], l: &mut Local) -> Result<(), Viol> {
    let args = super::quire::encode_history(steps, N as u64);
    let mut q = Q32E2::init();
    let mut m = Model::Sum(Dy::ZERO);
    for st in steps {
        m = apply_model::<P32E2>(m, st);
        if let Err(e) = guard(|| apply_real(&mut q, st)) {
            return Err(Viol::panic(format!("PxE2<{}>.from_q32e2", N), &args, "no panic".into(), e));
        }
    }
    l.eval();
    let want = match &m {
        Model::NaR => 0x8000_0000,
        Model::Sum(s) => {
            if !matches!(classify(N, 2, s), RClass::Zero | RClass::Exact) {
                l.nontrivial(hash_args(18 * 64 + N as u64, &args));
            }
            (round_posit(N, 2, s) << (32 - N)) & 0xffff_ffff
        }
    };
    expect_bits(&format!("PxE2<{}>.from_q32e2", N), &args, want, guard(|| <PxE2<N> as PXC>::from_q32(&q).unwrap() as u64))
}

/// generic -> generic; dir 0: PxE2<M> -> PxE1<N>, 1: PxE1<M> -> PxE2<N>, 2: PxE2<M> -> PxE2<N>
pub fn g2g<const M: u32, const N: u32>(dir: usize, x: u32, l: &mut Local) -> Result<(), Viol> {
    let (ses, des) = [(2u32, 1u32), (1, 2), (2, 2)][dir];
    let src = x & ((gen::mask(M) as u32) << (32 - M));
    let d = decode(M, ses, (src >> (32 - M)) as u64);
    l.eval();
    let want = match &d {
        None => 0x8000_0000u64,
        Some(d) => {
            if !matches!(classify(N, des, d), RClass::Zero | RClass::Exact) {
                l.nontrivial(hash_args(1000 + dir as u64 * 4096 + (M * 64 + N) as u64, &[src as u64]));
            }
            (round_posit(N, des, d) << (32 - N)) & 0xffff_ffff
        }
    };
    let name = format!("{}<{}>->{}<{}>", ["PxE2", "PxE1", "PxE2"][dir], M, ["PxE1", "PxE2", "PxE2"][dir], N);
    let got = guard(|| match dir {
        0 => {
            let p = PxE2::<M>::from_bits(src);
            [PxE1::<N>::from_pxe2(p).to_bits() as u64, <PxE1<N> as From<PxE2<M>>>::from(p).to_bits() as u64, p.to_pxe1::<N>().to_bits() as u64]
        }
        1 => {
            let p = PxE1::<M>::from_bits(src);
            [PxE2::<N>::from_pxe1(p).to_bits() as u64, <PxE2<N> as From<PxE1<M>>>::from(p).to_bits() as u64, p.to_pxe2::<N>().to_bits() as u64]
        }
        _ => {
            let p = PxE2::<M>::from_bits(src);
            let r = PxE2::<N>::from_pxe2(p).to_bits() as u64;
            [r, r, r]
        }
    });
    match got {
        Ok(r) => {
            for (i, v) in r.iter().enumerate() {
                if *v != want {
                    return Err(Viol::wrong(format!("{}.{}", name, ["from_pxe", "From", "to_pxe"][i]), &[src as u64], want, *v));
                }
            }
            Ok(())
        }
        Err(e) => Err(Viol::panic(name, &[src as u64], format!("{:#x}", want), e)),
    }
}
pub const MS: [u32; 31] = [2, 3, 4, 5, 6, 7, 8, 9, 10, 11, 12, 13, 14, 15, 16, 17, 18, 19, 20, 21, 22, 23, 24, 25, 26, 27, 28, 29, 30, 31, 32];
pub fn g2g_dispatch(dir: usize, m: u32, n: u32, x: u32, l: &mut Local) -> Result<(), Viol> {
    with_n!(m, MM, with_n!(n, NN, g2g::<MM, NN>(dir, x, l)))
}
pub fn from_quire_dispatch(n: u32, steps: &[Step], l: &mut Local) -> Result<(), Viol> {
    with_n!(n, NN, from_quire::<NN>(steps, l))
}

/// source values for kind at width n: (strategy of the u64 input)
fn inputs(kind: usize, n: u32, es: u32) -> BoxedStrategy<u64> {
    let sh = 32 - n;
    match kind {
        0 | 1 | 4..=6 | 14..=17 => {
            // generic source patterns; for narrowing targets also values next to the target's thresholds
            let (tn, tes) = match kind {
                4 => (8, 0),
                5 => (16, 1),
                _ => (n.min(31), es),
            };
            prop_oneof![
                3 => gen::bits(n).prop_map(move |b| b << sh),
                1 => (gen::bits(tn + 1), -2i64..=2).prop_map(move |(v, d)| {
                    match decode(tn + 1, tes, v | 1) {
                        Some(x) => ((round_posit(n, es, &x) as i64 + d) as u64 & gen::mask(n)) << sh,
                        None => 0,
                    }
                }),
            ]
            .boxed()
        }
        2 => prop_oneof![
            1 => gen::f64bits(),
            2 => (gen::bits(n + 1), 0u8..5, any::<u64>()).prop_map(move |(v, d, r)| match decode(n + 1, es, v | 1).and_then(|x| x.to_f64_exact()) {
                Some(f) if f != 0.0 => { let b = f.to_bits(); match d { 0 => b, 1 => b + 1, 2 => b - 1, 3 => b + (1 << (r % 30)), _ => b - (1 << (r % 30)) } }
                _ => r,
            }),
        ]
        .boxed(),
        3 => prop_oneof![
            1 => gen::f32bits().prop_map(|b| b as u64),
            2 => (gen::bits(n + 1), 0u8..3, any::<u64>()).prop_map(move |(v, d, r)| match decode(n + 1, es, v | 1).and_then(|x| x.to_f64_exact()) {
                Some(f) if f != 0.0 && (f as f32).is_finite() => { let b = (f as f32).to_bits(); (match d { 0 => b, 1 => b.wrapping_add(1), _ => b.wrapping_sub(1) }) as u64 }
                _ => r & 0xffff_ffff,
            }),
        ]
        .boxed(),
        7 => gen::bits(8).boxed(),
        8 => gen::bits(16).boxed(),
        9 => prop_oneof![
            2 => gen::bits(32),
            2 => (gen::bits(n + 1), -2i64..=2).prop_map(move |(v, d)| match decode(n + 1, es, v | 1) { Some(x) => (round_posit(32, 2, &x) as i64 + d) as u64 & 0xffff_ffff, None => 0x8000_0000 }),
        ]
        .boxed(),
        10..=13 => prop_oneof![
            2 => gen::int64(),
            2 => (gen::bits(n + 1), -2i64..=2, any::<bool>()).prop_map(move |(v, d, neg)| match decode(n + 1, es, v | 1) {
                Some(x) => { let (_, m) = x.abs().round_int_rne(); let i = if m.bitlen() > 63 { i64::MAX } else { m.low_u64() as i64 }; (if neg { i.wrapping_add(d).wrapping_neg() } else { i.wrapping_add(d) }) as u64 }
                None => 0,
            }),
        ]
        .boxed(),
        _ => gen::bits(32).boxed(),
    }
}

pub fn run(rep: &mut Report) {
    let tier = rep.cfg.tier;
    rep.rule = "for every width N in 2..=32 and both exponent sizes: PxE -> f32/f64, -> P8E0/P16E1/P32E2, -> i32/u32/i64/u64; f32/f64, P8E0/P16E1/P32E2, i32/u32/i64/u64 -> PxE (explicit todo!() stubs PxE1::from_i64/from_u32 are not called); PxE2<M> -> PxE1<N>, PxE1<M> -> PxE2<N>, PxE2<M> -> PxE2<N> for all 31 x 31 width pairs; Q32E2 accumulator (C04 histories) -> PxE2<N>; inherent and From spellings. Expected: exact when the target can hold the value, else posit / nearest-even-integer rounding, NaR and zero preserved, low 32-N bits zero. Sources: all patterns for P8/P16 sources and N <= 12 generic sources, proptest otherwise (structured bits, threshold lattice of the target +-2). Non-trivial = value not representable in the target / non-integer or negative for integer targets; distinct (conversion, N, input)."
        .into();
    rep.assumptions = std_assumptions();
    super::run_corpus(rep, replay);
    let per = tier.pick(8_000, 100_000);
    for es in 1..=2u32 {
        for n in 2..=32u32 {
            // complete sources where small
            if n <= 12 {
                let k = 1u64 << n;
                let sh = 32 - n;
                rep.exhaustive(&format!("PxE{}<{}> all {} patterns: to_f64, to_f32, to_p8/16/32, to_i32/u32/i64/u64", es, n, k), k, move |i, l| {
                    for kind in [0usize, 1, 4, 5, 6, 14, 15, 16, 17] {
                        dispatch(es, n, kind, i << sh, l)?;
                    }
                    Ok(())
                });
            }
            rep.exhaustive(&format!("PxE{}<{}> from all 256 P8E0 and all 65536 P16E1 patterns", es, n), 1 << 16, move |i, l| {
                if i < 256 {
                    dispatch(es, n, 7, i, l)?;
                }
                dispatch(es, n, 8, i, l)
            });
            for kind in 0..18usize {
                if n <= 12 && matches!(kind, 0 | 1 | 4 | 5 | 6 | 14 | 15 | 16 | 17) || kind == 7 || kind == 8 {
                    continue;
                }
                rep.generated(&format!("PxE{}<{}> {} generated", es, n, KINDS[kind]), per, move || inputs(kind, n, es), move |&x, l| dispatch(es, n, kind, x, l));
            }
        }
    }
    // generic <-> generic
    let gper = tier.pick(4_000, 40_000);
    for dir in 0..3usize {
        for &m in &MS {
            let ses = [2u32, 1, 2][dir];
            rep.generated(&format!("{}<{}> -> {}<N> for all N in 2..=32", ["PxE2", "PxE1", "PxE2"][dir], m, ["PxE1", "PxE2", "PxE2"][dir]), gper * 31, move || (2u32..=32, gen::bits(m), gen::bits(33), -2i64..=2, any::<bool>()), move |&(n, b, v, d, thr), l| {
                let des = [1u32, 2, 2][dir];
                // source next to a threshold of the target width, or a structured pattern
                let src = if thr && n < m {
                    match decode(n + 1, des, (v | 1) & gen::mask(n + 1)) {
                        Some(x) => (round_posit(m, ses, &x) as i64 + d) as u64 & gen::mask(m),
                        None => b,
                    }
                } else {
                    b
                };
                g2g_dispatch(dir, m, n, (src << (32 - m)) as u32, l)
            });
        }
    }
    // quire -> PxE2<N>
    rep.generated("Q32E2 accumulator (generated histories) -> PxE2<N>, all N", tier.pick(40_000, 800_000), || (2u32..=32, history::<P32E2>(false, 8)), |(n, (steps, _)), l| from_quire_dispatch(*n, steps, l));
    // seeded C14-r3-m1: the sticky mask below the 64-bit window one bit short — only a threshold of the
    // N-bit format plus ONE bit exactly 64 places below the leading bit shows it
    rep.generated(
        "Q32E2 accumulator (tie-directed histories: threshold of the N-bit format + one distant sticky term at a drawn depth) -> PxE2<N>, all N",
        tier.pick(250_000, 2_000_000),
        || (2u32..=32).prop_flat_map(|n| (Just(n), super::quire::tie_history_w::<P32E2>(n))),
        |(n, (steps, _)), l| from_quire_dispatch(*n, steps, l),
    );
}

pub fn replay(op: &str, args: &[u64]) -> Result<(), Viol> {
    let mut l = Local::new(false);
    if op.contains("->") {
        // "PxE2<M>->PxE1<N>.spelling"
        let head = op.split('.').next().unwrap_or("");
        let mut it = head.split("->");
        let (s, d) = (it.next().unwrap_or(""), it.next().unwrap_or(""));
        let (ses, m) = super::c13::parse_ty(s);
        let (des, n) = super::c13::parse_ty(d);
        let dir = match (ses, des) {
            (2, 1) => 0,
            (1, 2) => 1,
            _ => 2,
        };
        let m = if MS.contains(&m) { m } else { 32 };
        return g2g_dispatch(dir, m, n, arg(args, 0) as u32, &mut l);
    }
    let (ty, name) = split_op(op);
    let (es, n) = super::c13::parse_ty(ty);
    if name == "from_q32e2" {
        let (steps, _) = super::quire::decode_history(args);
        return from_quire_dispatch(n, &steps, &mut l);
    }
    let kind = KINDS.iter().position(|k| *k == name).unwrap_or(0);
    dispatch(es, n, kind, arg(args, 0), &mut l)
}

/// tooling: failure matrix per (family, conversion, N)
pub fn survey() -> i32 {
    use proptest::strategy::ValueTree;
    use proptest::test_runner::{Config, RngSeed, TestRunner};
    println!("failure % per N=2..32 (P = panics present, '.' = none)");
    for es in [2u32, 1] {
        for kind in 0..18usize {
            let mut line = format!("PxE{} {:11}", es, KINDS[kind]);
            for n in 2..=32u32 {
                let mut runner = TestRunner::new(Config { rng_seed: RngSeed::Fixed(42 + n as u64), ..Config::default() });
                let st = inputs(kind, n, es);
                let (mut bad, mut pan, tot) = (0, 0, 3000);
                let mut l = Local::new(false);
                for _ in 0..tot {
                    let x = st.new_tree(&mut runner).unwrap().current();
                    if let Err(v) = dispatch(es, n, kind, x, &mut l) {
                        bad += 1;
                        if v.kind == "panic" {
                            pan += 1;
                        }
                    }
                }
                if bad == 0 {
                    line += "   . ";
                } else {
                    line += &format!(" {:3}{}", (bad * 100 + tot - 1) / tot, if pan > 0 { "P" } else { " " });
                }
            }
            println!("{}", line);
        }
    }
    0
}
pub fn probe(es: u32, n: u32, kindname: &str) -> i32 {
    use proptest::strategy::ValueTree;
    use proptest::test_runner::{Config, RngSeed, TestRunner};
    let kind = KINDS.iter().position(|o| *o == kindname).unwrap_or(0);
    let mut runner = TestRunner::new(Config { rng_seed: RngSeed::Fixed(7), ..Config::default() });
    let st = inputs(kind, n, es);
    let mut l = Local::new(false);
    let mut seen = std::collections::BTreeMap::new();
    for _ in 0..20000 {
        let x = st.new_tree(&mut runner).unwrap().current();
        if let Err(v) = dispatch(es, n, kind, x, &mut l) {
            let key = if v.kind == "panic" { v.got.clone() } else { "wrong".to_string() };
            let e = seen.entry(key).or_insert((0, String::new()));
            e.0 += 1;
            if e.1.is_empty() {
                e.1 = format!("{:x?} want={} got={}", v.args, v.want, v.got);
            }
        }
    }
    for (k, (n, ex)) in seen {
        println!("{:6} {} | e.g. {}", n, k, ex);
    }
    0
}
#[allow(dead_code)]
fn _u() {
    let _ = json!(0);
}
