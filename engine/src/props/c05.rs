//! C05 — fused multiply-add family rounds once (DESIGN.md section 6, C05).
use super::util::*;
use crate::core::*;
use crate::fastref as fr;
use crate::gen;
use crate::pt::PT;
use crate::refmodel::*;
use serde_json::json;
use softposit::{P16E1, P32E2, P8E0};

pub const OPS: [&str; 3] = ["mul_add", "mul_sub", "sub_product"];

#[inline]
fn call<P: PT>(op: usize, a: P, b: P, c: P) -> u64 {
    match op {
        0 => a.mul_add(b, c),
        1 => a.mul_sub(b, c),
        _ => c.sub_product(a, b),
    }
    .tb()
}

pub fn triple_slow<P: PT>(a: u64, b: u64, c: u64, ops: &[usize], l: &mut Local) -> Result<(), Viol> {
    let n = P::N;
    let (pa, pb, pc) = (P::fb(a), P::fb(b), P::fb(c));
    let d = match (dec::<P>(a), dec::<P>(b), dec::<P>(c)) {
        (Some(x), Some(y), Some(z)) => Some((x.mul(&y), z)),
        _ => None,
    };
    for &op in ops {
        l.eval();
        let exact = d.map(|(p, z)| match op {
            0 => p.add(&z),
            1 => p.sub(&z),
            _ => z.sub(&p),
        });
        let want = exact.as_ref().map(|e| rnd::<P, _>(e)).unwrap_or(nar::<P>());
        let got = guard(|| call(op, pa, pb, pc));
        if got.as_ref().ok() != Some(&want) {
            return expect_bits(&format!("{}.{}", P::NAME, OPS[op]), &[a, b, c], want, got);
        }
        if let (Some(e), Some((p, z))) = (exact, d) {
            let cl = classify(P::N, P::ES, &e);
            let real = a != 0 && b != 0 && c != 0;
            if real && matches!(cl, RClass::Tie | RClass::Inexact | RClass::SatMax | RClass::SatMin) {
                l.nontrivial(hash_args(op as u64, &[a, b, c]));
                l.label(match cl {
                    RClass::Tie => "res_tie",
                    RClass::Inexact => "res_inexact",
                    RClass::SatMax => "res_sat_max",
                    _ => "res_sat_min",
                });
                if super::c01::reg_len(n, want) + 4 >= n {
                    l.label("res_regime>=n-4");
                }
                // cancellation depth: how much smaller the result is than the larger term
                if !e.is_zero() {
                    let top = |d: &Dy| d.mag.bitlen() as i64 + d.exp as i64;
                    let big = top(&p).max(top(&z));
                    let depth = big - top(&e);
                    if depth >= 8 {
                        l.label("cancel>=8bits");
                    }
                    if depth >= 20 {
                        l.label("cancel>=20bits");
                    }
                }
                if cl == RClass::Inexact {
                    // how close to a rounding threshold? (sticky-bit territory: residual is one distant bit)
                    let m = gen::mask(n);
                    let wm = if want >> (n - 1) & 1 == 1 { want.wrapping_neg() & m } else { want };
                    for t in [(wm << 1).wrapping_sub(1), (wm << 1) + 1] {
                        if let Some(v) = decode(n + 1, P::ES, t & gen::mask(n + 1)) {
                            let dlt = e.abs().sub(&v);
                            if !dlt.is_zero() && dlt.mag.bitlen() == 1 {
                                let depth = (v.mag.bitlen() as i64 + v.exp as i64) - (dlt.exp as i64 + 1);
                                if depth >= n as i64 + 4 {
                                    l.label("threshold+-one_bit,depth>=n+4");
                                } else {
                                    l.label("threshold+-one_bit");
                                }
                            }
                        }
                    }
                }
                if cl == RClass::Tie {
                    l.sample(|| json!({"type": P::NAME, "op": OPS[op], "a": hex(a), "b": hex(b), "c": hex(c), "result": hex(want), "class": "tie"}));
                }
            } else if real && cl == RClass::Zero {
                l.label("res_exact_cancel_to_zero");
            }
        }
    }
    Ok(())
}

#[inline]
pub fn triple_fast<P: PT>(a: u64, b: u64, c: u64, l: &mut Local) -> Result<(), Viol> {
    let (pa, pb, pc) = (P::fb(a), P::fb(b), P::fb(c));
    let wants: [u64; 3] = match (fdec::<P>(a), fdec::<P>(b), fdec::<P>(c)) {
        (Some(x), Some(y), Some(z)) => {
            let p = fr::mul(x, y);
            [fenc::<P>(fr::add(p, z)), fenc::<P>(fr::add(p, fr::neg(z))), fenc::<P>(fr::add(z, fr::neg(p)))]
        }
        _ => [nar::<P>(); 3],
    };
    l.evaln(3);
    for op in 0..3 {
        let got = guard(|| call(op, pa, pb, pc));
        if got.as_ref().ok() != Some(&wants[op]) {
            return expect_bits(&format!("{}.{}", P::NAME, OPS[op]), &[a, b, c], wants[op], got);
        }
    }
    if a != 0 && b != 0 && c != 0 && wants[0] != nar::<P>() {
        l.nontrivial(0);
    }
    Ok(())
}

pub fn run(rep: &mut Report) {
    let tier = rep.cfg.tier;
    rep.rule = "operand triples (a,b,c) evaluated under a.mul_add(b,c), a.mul_sub(b,c), c.sub_product(a,b) against exact a*b+c, a*b-c, c-a*b rounded once. P8: all 2^24 triples (fast oracle; non-trivial = all three operands real and non-zero). P16/P32: proptest triples (c related to the product: cancelling within +-4 ulp of -round(ab), far smaller, far larger, same scale) and tie-directed triples c = v - a*b for a threshold v. Non-trivial (generated) = all operands real non-zero and result tie / inexact / saturated; distinct = distinct (op,a,b,c)."
        .into();
    rep.assumptions = std_assumptions();
    super::run_corpus(rep, replay);
    rep.exhaustive("P8E0 all 2^24 triples x 3 ops (fast oracle)", 1 << 24, |i, l| triple_fast::<P8E0>(i >> 16, (i >> 8) & 0xff, i & 0xff, l));
    rep.lattice("P8E0 65536 strided triples x 3 ops (exact oracle, cross-check of the fast one)", 1 << 16, |i, l| {
        let t = i.wrapping_mul(257).wrapping_add(i >> 3) & 0xff_ffff;
        triple_slow::<P8E0>(t >> 16, (t >> 8) & 0xff, t & 0xff, &[0, 1, 2], l)
    });
    let (g16, t16, g32, t32) = match tier {
        Tier::Quick => (1_000_000, 600_000, 2_500_000, 2_000_000),
        Tier::Thorough => (6_000_000, 3_000_000, 20_000_000, 8_000_000),
    };
    rep.generated("P16E1 generated triples", g16, || gen::triple(16, 1), |&(a, b, c), l| triple_slow::<P16E1>(a, b, c, &[0, 1, 2], l));
    rep.generated("P16E1 tie-directed triples", t16, || gen::tie_triple(16, 1), |&(a, b, c), l| triple_slow::<P16E1>(a, b, c, &[0, 1, 2], l));
    rep.generated("P16E1 near-tie triples (a*b + c = threshold + residual far below the ulp)", t16, || gen::near_tie_triple(16, 1), |&(a, b, c), l| triple_slow::<P16E1>(a, b, c, &[0, 1, 2], l));
    rep.generated("P32E2 near-tie triples (a*b + c = threshold + residual far below the ulp)", t32, || gen::near_tie_triple(32, 2), |&(a, b, c), l| triple_slow::<P32E2>(a, b, c, &[0, 1, 2], l));
    rep.generated("P16E1 sparse-product triples (a*b + c = threshold +- one bit at a drawn depth)", t16, || gen::sparse_tie_triple(16, 1), |&(a, b, c), l| triple_slow::<P16E1>(a, b, c, &[0, 1, 2], l));
    rep.generated("P32E2 sparse-product triples (a*b + c = threshold +- one bit at a drawn depth)", t32, || gen::sparse_tie_triple(32, 2), |&(a, b, c), l| triple_slow::<P32E2>(a, b, c, &[0, 1, 2], l));
    rep.generated("P32E2 generated triples", g32, || gen::triple(32, 2), |&(a, b, c), l| triple_slow::<P32E2>(a, b, c, &[0, 1, 2], l));
    rep.generated("P32E2 tie-directed triples", t32, || gen::tie_triple(32, 2), |&(a, b, c), l| triple_slow::<P32E2>(a, b, c, &[0, 1, 2], l));
    // extreme lattice: (a,b) among extreme-regime patterns, c in a window around -round(ab)
    let lat = super::c01::extreme_lattice(32, if tier == Tier::Quick { 27 } else { 24 });
    let k = lat.len() as u64;
    rep.lattice(&format!("P32E2 (a,b) over {} extreme-regime patterns, c = -round(ab) + d, d in -4..=4 (fast oracle)", k), k * k * 9, |i, l| {
        let (a, b) = (lat[(i / 9 / k) as usize], lat[(i / 9 % k) as usize]);
        let d = (i % 9) as i64 - 4;
        let p = match (fdec::<P32E2>(a), fdec::<P32E2>(b)) {
            (Some(x), Some(y)) => fenc::<P32E2>(fr::mul(x, y)),
            _ => 0,
        };
        let c = ((p.wrapping_neg() as i64).wrapping_add(d) as u64) & 0xffff_ffff;
        triple_fast::<P32E2>(a, b, c, l)
    });
    if tier == Tier::Thorough {
        rep.lattice("P16E1 ALL 2^32 (a,b) pairs, c = -round(ab) + d for d in -2..=2 (deep cancellation window), 3 ops (fast oracle)", (1u64 << 32) * 5, |i, l| {
            let (ab, d) = (i / 5, (i % 5) as i64 - 2);
            let (a, b) = (ab >> 16, ab & 0xffff);
            let p = match (fdec::<P16E1>(a), fdec::<P16E1>(b)) {
                (Some(x), Some(y)) => fenc::<P16E1>(fr::mul(x, y)),
                _ => 0,
            };
            let c = ((p.wrapping_neg() as i64).wrapping_add(d) as u64) & 0xffff;
            triple_fast::<P16E1>(a, b, c, l)
        });
    }
    let lat16 = super::c01::extreme_lattice(16, if tier == Tier::Quick { 10 } else { 8 });
    let k = lat16.len() as u64;
    rep.lattice(&format!("P16E1 (a,b) over {} extreme-regime patterns, c = -round(ab) + d, d in -4..=4 (fast oracle)", k), k * k * 9, |i, l| {
        let (a, b) = (lat16[(i / 9 / k) as usize], lat16[(i / 9 % k) as usize]);
        let d = (i % 9) as i64 - 4;
        let p = match (fdec::<P16E1>(a), fdec::<P16E1>(b)) {
            (Some(x), Some(y)) => fenc::<P16E1>(fr::mul(x, y)),
            _ => 0,
        };
        let c = ((p.wrapping_neg() as i64).wrapping_add(d) as u64) & 0xffff;
        triple_fast::<P16E1>(a, b, c, l)
    });
}

pub fn replay(op: &str, args: &[u64]) -> Result<(), Viol> {
    let mut l = Local::new(false);
    let (ty, name) = split_op(op);
    let ops: Vec<usize> = match OPS.iter().position(|o| *o == name) {
        Some(i) => vec![i],
        None => vec![0, 1, 2],
    };
    let (a, b, c) = (arg(args, 0), arg(args, 1), arg(args, 2));
    match ty {
        "P8E0" => triple_slow::<P8E0>(a, b, c, &ops, &mut l),
        "P16E1" => triple_slow::<P16E1>(a, b, c, &ops, &mut l),
        _ => triple_slow::<P32E2>(a, b, c, &ops, &mut l),
    }
}
