//! C11 — P16E1 / P8E0 elementary functions correctly rounded on every input (DESIGN.md section 6, C11).
//! Oracle: committed golden tables (golden/c11_*.bin) computed by golden/gen_c11.py with mpmath at
//! >= 200 bits, each rounding decision proved by an enclosure, exact rational special cases where the
//! true result is dyadic.  In-process guard: an f64 libm enclosure must not contradict the table.
use super::util::*;
use crate::core::*;
use crate::refmodel::*;
use serde_json::json;
use softposit::{P16E1, P8E0};
use std::sync::OnceLock;

pub const FNS16: [&str; 10] = ["exp", "exp2", "ln", "log2", "sin_pi", "cos_pi", "tan_pi", "asin_pi", "acos_pi", "atan_pi"];
pub const FNS8: [&str; 2] = ["exp", "ln"];

fn load(name: &str, len: usize) -> Result<Vec<u16>, String> {
    let path = format!("{}/golden/{}", verif_dir(), name);
    let b = std::fs::read(&path).map_err(|e| format!("{}: {}", path, e))?;
    if b.len() != len * 2 {
        return Err(format!("{}: expected {} bytes, found {}", path, len * 2, b.len()));
    }
    Ok(b.chunks(2).map(|c| u16::from_le_bytes([c[0], c[1]])).collect())
}

struct Tables {
    t16: Vec<Vec<u16>>,
    t8: Vec<Vec<u16>>,
}
static TABLES: OnceLock<Result<Tables, String>> = OnceLock::new();
fn tables() -> &'static Result<Tables, String> {
    TABLES.get_or_init(|| {
        let mut t16 = vec![];
        for f in FNS16 {
            t16.push(load(&format!("c11_{}.bin", f), 65536)?);
        }
        let mut t8 = vec![];
        for f in FNS8 {
            t8.push(load(&format!("c11_p8_{}.bin", f), 256)?);
        }
        Ok(Tables { t16, t8 })
    })
}

fn call16(f: usize, p: P16E1) -> u64 {
    (match f {
        0 => p.exp(),
        1 => p.exp2(),
        2 => p.ln(),
        3 => p.log2(),
        4 => p.sin_pi(),
        5 => p.cos_pi(),
        6 => p.tan_pi(),
        7 => p.asin_pi(),
        8 => p.acos_pi(),
        _ => p.atan_pi(),
    })
    .to_bits() as u64
}
fn call8(f: usize, p: P8E0) -> u64 {
    (match f {
        0 => p.exp(),
        _ => p.ln(),
    })
    .to_bits() as u64
}

/// f64 libm value of the function at the exact input value (None where undefined / not attempted)
fn f64_ref(name: &str, x: f64) -> Option<f64> {
    use std::f64::consts::PI;
    // exact reduction of x modulo 2 (x is a short dyadic: exact in f64)
    let red = |x: f64| x - 2.0 * (x / 2.0).floor();
    let y = match name {
        "exp" => x.exp(),
        "exp2" => x.exp2(),
        "ln" => {
            if x <= 0.0 {
                return None;
            }
            x.ln()
        }
        "log2" => {
            if x <= 0.0 {
                return None;
            }
            x.log2()
        }
        "sin_pi" => (PI * red(x)).sin(),
        "cos_pi" => (PI * red(x)).cos(),
        "tan_pi" => (PI * red(x)).tan(),
        "asin_pi" => {
            if x.abs() > 1.0 {
                return None;
            }
            x.asin() / PI
        }
        "acos_pi" => {
            if x.abs() > 1.0 {
                return None;
            }
            x.acos() / PI
        }
        _ => x.atan() / PI,
    };
    if y.is_finite() && y != 0.0 {
        Some(y)
    } else {
        None
    }
}

/// consistency guard: if both ends of a (generous) libm enclosure round to the same pattern, the
/// golden table must agree with it.  Returns Err(description) on contradiction.
fn guard_f64(n: u32, es: u32, name: &str, x: &Dy, golden: u64) -> Result<bool, String> {
    let xf = match x.to_f64_exact() {
        Some(v) => v,
        None => return Ok(false),
    };
    let y = match f64_ref(name, xf) {
        Some(y) => y,
        None => return Ok(false),
    };
    // trig near a zero of the function: absolute error of pi*r dominates; skip those
    if name.ends_with("_pi") && !name.starts_with('a') && (y.abs() < 1e-3 || y.abs() > 1e3) {
        return Ok(false); // next to a zero or a pole the f64 argument error dominates
    }
    let tol = 1e-11;
    let (lo, hi) = (y * (1.0 - tol), y * (1.0 + tol));
    let (a, b) = (round_posit(n, es, &Dy::from_f64(lo).unwrap()), round_posit(n, es, &Dy::from_f64(hi).unwrap()));
    if a == b {
        if a != golden {
            return Err(format!("golden table {} disagrees with libm enclosure at x={:e}: table {:#x}, libm {:#x}", name, xf, golden, a));
        }
        return Ok(true);
    }
    Ok(false)
}

pub fn one16(f: usize, a: u64, l: &mut Local) -> Result<(), Viol> {
    let t = tables().as_ref().expect("tables checked in run()");
    let want = t.t16[f][a as usize] as u64;
    l.eval();
    let d = decode(16, 1, a);
    if let Some(x) = &d {
        match guard_f64(16, 1, FNS16[f], x, want) {
            Ok(true) => l.label("confirmed_by_libm_enclosure"),
            Ok(false) => l.label("table_only(exact point / tie-adjacent / undefined)"),
            Err(e) => panic!("oracle inconsistent: {}", e),
        }
        // exactly representable results are the cases the crate's own loops skip; count them
        if want != 0x8000 {
            l.nontrivial(hash_args(f as u64, &[a]));
        } else {
            l.label("NaR_result(outside the real domain)");
        }
        if want == 0 || want == 0x4000 || want == 0xC000 {
            l.label("exact_result(0,+-1)");
        }
        if a == 0x7fff || a == 0x8001 {
            l.sample(|| json!({"fn": FNS16[f], "a": hex(a), "want": hex(want)}));
        }
    }
    expect_bits(&format!("P16E1.{}", FNS16[f]), &[a], want, guard(|| call16(f, P16E1::from_bits(a as u16))))
}

pub fn one8(f: usize, a: u64, l: &mut Local) -> Result<(), Viol> {
    let t = tables().as_ref().expect("tables checked in run()");
    let want = t.t8[f][a as usize] as u64;
    l.eval();
    if let Some(x) = decode(8, 0, a) {
        if let Err(e) = guard_f64(8, 0, FNS8[f], &x, want) {
            panic!("oracle inconsistent: {}", e);
        }
        if want != 0x80 {
            l.nontrivial(hash_args(100 + f as u64, &[a]));
        }
        l.sample(|| json!({"fn": format!("P8E0.{}", FNS8[f]), "a": hex(a), "want": hex(want)}));
    }
    expect_bits(&format!("P8E0.{}", FNS8[f]), &[a], want, guard(|| call8(f, P8E0::from_bits(a as u8))))
}

pub fn run(rep: &mut Report) {
    rep.rule = "complete enumeration in both tiers: all 65536 P16E1 inputs x {exp, exp2, ln, log2, sin_pi, cos_pi, tan_pi, asin_pi, acos_pi, atan_pi} and all 256 P8E0 inputs x {exp, ln}, each compared bit-for-bit with the committed golden table (mpmath >= 200 bits, rounding decision proved by enclosure, exact rational special cases for dyadic results, NaR exactly where the real function is undefined or the input is NaR). Non-trivial = real input with a real result; distinct (function, input)."
        .into();
    rep.assumptions = vec![
        "golden/c11_*.bin were generated by golden/gen_c11.py (mpmath 1.3, posit_ref.py Fraction rounding); the run cross-checks every entry that an f64 libm enclosure can decide".into(),
        "posit-standard (2022) rounding on the encoding is the meaning of 'the posit rule'".into(),
    ];
    if let Err(e) = tables() {
        rep.inconclusive.push(format!("golden tables unavailable: {}", e));
        return;
    }
    super::run_corpus(rep, replay);
    for f in 0..10 {
        rep.exhaustive(&format!("P16E1.{} all 65536 inputs", FNS16[f]), 1 << 16, move |i, l| one16(f, i, l));
    }
    for f in 0..2 {
        rep.exhaustive(&format!("P8E0.{} all 256 inputs", FNS8[f]), 1 << 8, move |i, l| one8(f, i, l));
    }
}

pub fn replay(op: &str, args: &[u64]) -> Result<(), Viol> {
    let mut l = Local::new(false);
    if tables().is_err() {
        return Ok(());
    }
    let (ty, name) = split_op(op);
    let a = arg(args, 0);
    if ty == "P8E0" {
        let f = FNS8.iter().position(|x| *x == name).unwrap_or(0);
        return one8(f, a & 0xff, &mut l);
    }
    let f = FNS16.iter().position(|x| *x == name).unwrap_or(0);
    one16(f, a & 0xffff, &mut l)
}
