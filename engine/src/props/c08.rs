//! C08 — posit width conversions (DESIGN.md section 6, C08).
use super::util::*;
use crate::core::*;
use crate::fastref as fr;
use crate::gen;
use crate::refmodel::*;
use proptest::prelude::*;
use serde_json::json;
use softposit::{P16E1, P32E2, P8E0};

pub const FMT: [(u32, u32, &str); 3] = [(8, 0, "P8E0"), (16, 1, "P16E1"), (32, 2, "P32E2")];

/// all spellings of the conversion src -> dst; each returns the target bits
pub fn spellings(src: usize, dst: usize, a: u64) -> Vec<(&'static str, Result<u64, String>)> {
    let p8 = P8E0::from_bits(a as u8);
    let p16 = P16E1::from_bits(a as u16);
    let p32 = P32E2::from_bits(a as u32);
    match (src, dst) {
        (0, 1) => vec![("From", guard(|| P16E1::from(p8).to_bits() as u64)), ("from_p8e0", guard(|| P16E1::from_p8e0(p8).to_bits() as u64)), ("to_p16e1", guard(|| p8.to_p16e1().to_bits() as u64))],
        (0, 2) => vec![("From", guard(|| P32E2::from(p8).to_bits() as u64)), ("from_p8e0", guard(|| P32E2::from_p8e0(p8).to_bits() as u64)), ("to_p32e2", guard(|| p8.to_p32e2().to_bits() as u64))],
        (1, 0) => vec![("From", guard(|| P8E0::from(p16).to_bits() as u64)), ("from_p16e1", guard(|| P8E0::from_p16e1(p16).to_bits() as u64)), ("to_p8e0", guard(|| p16.to_p8e0().to_bits() as u64))],
        (1, 2) => vec![("From", guard(|| P32E2::from(p16).to_bits() as u64)), ("from_p16e1", guard(|| P32E2::from_p16e1(p16).to_bits() as u64)), ("to_p32e2", guard(|| p16.to_p32e2().to_bits() as u64))],
        (2, 0) => vec![("From", guard(|| P8E0::from(p32).to_bits() as u64)), ("from_p32e2", guard(|| P8E0::from_p32e2(p32).to_bits() as u64)), ("to_p8e0", guard(|| p32.to_p8e0().to_bits() as u64))],
        _ => vec![("From", guard(|| P16E1::from(p32).to_bits() as u64)), ("from_p32e2", guard(|| P16E1::from_p32e2(p32).to_bits() as u64)), ("to_p16e1", guard(|| p32.to_p16e1().to_bits() as u64))],
    }
}

pub fn conv(src: usize, dst: usize, a: u64, fast: bool, l: &mut Local) -> Result<(), Viol> {
    let (sn, ses, sname) = FMT[src];
    let (dn, des, dname) = FMT[dst];
    let (want, inexact) = if fast {
        match fr::decode(sn, ses, a) {
            None => (gen::nar(dn), false),
            Some(x) => {
                let w = fr::encode(dn, des, x);
                (w, !fast_exact(dn, des, x, w))
            }
        }
    } else {
        match decode(sn, ses, a) {
            None => (gen::nar(dn), false),
            Some(x) => {
                let w = round_posit(dn, des, &x);
                let c = classify(dn, des, &x);
                if c == RClass::Tie {
                    l.label("tie");
                }
                if matches!(c, RClass::SatMax | RClass::SatMin) {
                    l.label("saturating");
                }
                (w, !matches!(c, RClass::Exact | RClass::Zero))
            }
        }
    };
    if dn > sn && inexact {
        panic!("oracle: widening {}->{} of {:#x} not exact", sname, dname, a);
    }
    for (sp, got) in spellings(src, dst, a) {
        l.eval();
        if got.as_ref().ok() != Some(&want) {
            return expect_bits(&format!("{}->{}.{}", sname, dname, sp), &[a], want, got);
        }
    }
    if inexact {
        l.nontrivial(hash_args((src * 3 + dst) as u64, &[a]));
        l.sample(|| json!({"from": sname, "to": dname, "a": hex(a), "result": hex(want)}));
    }
    // widening then narrowing is the identity
    if dn > sn {
        l.eval();
        let back = guard(|| spellings(dst, src, want)[0].1.clone()).and_then(|r| r);
        if back.as_ref().ok() != Some(&a) {
            return expect_bits(&format!("{}->{}->{}.roundtrip", sname, dname, sname), &[a], a, back);
        }
    }
    Ok(())
}

/// P32 sources next to the thresholds of the narrower target
pub fn p32_near_thresholds(tn: u32, tes: u32) -> BoxedStrategy<u64> {
    (gen::bits(tn + 1), -2i64..=2).prop_map(move |(v, d)| {
        let v = (v | 1) & gen::mask(tn + 1);
        match fr::decode(tn + 1, tes, v) {
            Some(x) => ((fr::encode(32, 2, x) as i64 + d) as u64) & 0xffff_ffff,
            None => 0x8000_0000,
        }
    })
    .boxed()
}

pub fn run(rep: &mut Report) {
    let tier = rep.cfg.tier;
    rep.rule = "source pattern a converted along the six directed pairs among P8E0/P16E1/P32E2 through the From impl, from_* and to_* spellings; expected = posit rounding of the decoded source value in the target format (widening must be exact and widening-then-narrowing the identity). P8 and P16 sources: all patterns. P32 sources: every 9-bit and 17-bit target threshold mapped into P32 with its +-2 neighbours (complete lattice), proptest structured bits, and all 2^32 patterns to both targets in both tiers. Non-trivial = source value not representable in the target (narrowing that rounds or saturates); distinct (direction, a)."
        .into();
    rep.assumptions = std_assumptions();
    super::run_corpus(rep, replay);
    for &(s, d) in &[(0usize, 1usize), (0, 2)] {
        rep.exhaustive(&format!("{} -> {} all 256 sources", FMT[s].2, FMT[d].2), 1 << 8, move |i, l| conv(s, d, i, false, l));
    }
    for &(s, d) in &[(1usize, 0usize), (1, 2)] {
        rep.exhaustive(&format!("{} -> {} all 65536 sources", FMT[s].2, FMT[d].2), 1 << 16, move |i, l| conv(s, d, i, false, l));
    }
    // complete threshold lattices for P32 sources
    for &(d, tn, tes) in &[(0usize, 8u32, 0u32), (1, 16, 1)] {
        rep.lattice(&format!("P32E2 -> {}: every {}-bit threshold mapped into P32, offsets -2..=2", FMT[d].2, tn + 1), (1u64 << tn) * 5, move |i, l| {
            let v = ((i / 5) << 1) | 1;
            let off = (i % 5) as i64 - 2;
            match fr::decode(tn + 1, tes, v) {
                Some(x) => conv(2, d, ((fr::encode(32, 2, x) as i64 + off) as u64) & 0xffff_ffff, false, l),
                None => Ok(()),
            }
        });
    }
    let g = tier.pick(400_000, 4_000_000);
    rep.generated("P32E2 -> P8E0 structured bits", g, || gen::bits(32), |&a, l| conv(2, 0, a, false, l));
    rep.generated("P32E2 -> P16E1 structured bits", g, || gen::bits(32), |&a, l| conv(2, 1, a, false, l));
    rep.generated("P32E2 -> P16E1 near 17-bit thresholds (generated)", g / 2, || p32_near_thresholds(16, 1), |&a, l| conv(2, 1, a, false, l));
    match tier {
        Tier::Quick => {
            rep.exhaustive("P32E2 -> P8E0 all 2^32 sources (fast oracle)", 1 << 32, |i, l| conv(2, 0, i, true, l));
            rep.exhaustive("P32E2 -> P16E1 all 2^32 sources (fast oracle)", 1 << 32, |i, l| conv(2, 1, i, true, l));
        }
        Tier::Thorough => {
            rep.exhaustive("P32E2 -> P8E0 all 2^32 sources (fast oracle)", 1 << 32, |i, l| conv(2, 0, i, true, l));
            rep.exhaustive("P32E2 -> P16E1 all 2^32 sources (fast oracle)", 1 << 32, |i, l| conv(2, 1, i, true, l));
        }
    }
}

pub fn replay(op: &str, args: &[u64]) -> Result<(), Viol> {
    let mut l = Local::new(false);
    let head = op.split('.').next().unwrap_or("");
    let mut it = head.split("->");
    let idx = |s: &str| FMT.iter().position(|f| f.2 == s).unwrap_or(2);
    let s = idx(it.next().unwrap_or(""));
    let d = idx(it.next().unwrap_or(""));
    if s == d {
        return Ok(());
    }
    conv(s, d, arg(args, 0), false, &mut l)
}
