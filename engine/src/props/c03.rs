//! C03 — posit -> float exact; float / text round trips are the identity (DESIGN.md section 6, C03).
use super::util::*;
use crate::core::*;
use crate::gen;
use crate::pt::PT;
use serde_json::json;
use softposit::{P16E1, P32E2, P8E0};

fn f64_canon(f: f64) -> u64 {
    if f.is_nan() {
        0x7ff8_0000_0000_0000
    } else {
        f.to_bits()
    }
}
fn f32_canon(f: f32) -> u64 {
    if f.is_nan() {
        0x7fc0_0000
    } else {
        f.to_bits() as u64
    }
}

/// to_f64 / to_f32 / f64 round trip (cheap part)
#[inline]
pub fn floats<P: PT>(a: u64, l: &mut Local) -> Result<(), Viol> {
    let p = P::fb(a);
    let d = dec::<P>(a);
    // exact f64 image from the independent decoder (always representable: <= 28 significant bits, |scale| <= 120)
    let want64 = match &d {
        None => f64_canon(f64::NAN),
        Some(x) => f64_canon(x.to_f64_exact().expect("posit value must be an exact f64")),
    };
    for (sp, got) in [("to_f64", guard(|| f64_canon(p.to_f64()))), ("Into<f64>", guard(|| f64_canon(p.conv_to_f64())))] {
        l.eval();
        if got.as_ref().ok() != Some(&want64) {
            return expect_bits(&format!("{}.{}", P::NAME, sp), &[a], want64, got);
        }
    }
    // to_f32: IEEE round-to-nearest-even of the value (hardware f64->f32 conversion is that rounding); exact for P8/P16
    let w32 = f64::from_bits(want64) as f32;
    if P::N <= 16 && d.is_some() && (w32 as f64).to_bits() != want64 {
        panic!("oracle: {} value not exact in f32", P::NAME);
    }
    let want32 = f32_canon(w32);
    for (sp, got) in [("to_f32", guard(|| f32_canon(p.to_f32()))), ("Into<f32>", guard(|| f32_canon(p.conv_to_f32())))] {
        l.eval();
        if got.as_ref().ok() != Some(&want32) {
            return expect_bits(&format!("{}.{}", P::NAME, sp), &[a], want32, got);
        }
    }
    // round trip through f64 (the *reference* f64, so a to_f64 bug cannot mask a from_f64 bug)
    let f = f64::from_bits(want64);
    for (sp, got) in [("from_f64(to_f64)", guard(|| P::from_f64(f).tb())), ("From<f64>(to_f64)", guard(|| P::conv_from_f64(f).tb()))] {
        l.eval();
        if got.as_ref().ok() != Some(&a) {
            return expect_bits(&format!("{}.{}", P::NAME, sp), &[a], a, got);
        }
    }
    if let Some(x) = &d {
        if !x.is_zero() {
            l.nontrivial(a);
            if x.neg {
                l.label("negative");
            }
            if (w32 as f64).to_bits() != want64 {
                l.label("to_f32 rounds");
            }
        }
    }
    Ok(())
}

/// Display -> FromStr round trip
pub fn text<P: PT>(a: u64, l: &mut Local) -> Result<(), Viol> {
    l.eval();
    let p = P::fb(a);
    let s = match guard(|| p.to_text()) {
        Ok(s) => s,
        Err(m) => return Err(Viol::panic(format!("{}.Display", P::NAME), &[a], "a string".into(), m)),
    };
    let got = guard(|| P::parse(&s).map(|q| q.tb()));
    match got {
        Ok(Some(b)) if b == a => {
            l.sample(|| json!({"type": P::NAME, "a": hex(a), "text": s}));
            if a != 0 && a != nar::<P>() {
                l.nontrivial(a ^ 0x7e87);
            }
            Ok(())
        }
        Ok(Some(b)) => Err(Viol::wrong_s(format!("{}.Display->FromStr", P::NAME), &[a], hex(a), format!("{} (via \"{}\")", hex(b), s))),
        Ok(None) => Err(Viol::wrong_s(format!("{}.Display->FromStr", P::NAME), &[a], hex(a), format!("parse error on \"{}\"", s))),
        Err(m) => Err(Viol::panic(format!("{}.Display->FromStr", P::NAME), &[a], hex(a), m)),
    }
}

pub fn run(rep: &mut Report) {
    let tier = rep.cfg.tier;
    rep.rule = "every posit pattern a: to_f64 (and Into<f64>) bits equal the exact value from the independent decoder (NaR -> NaN, 0 -> +0.0); to_f32 equals the IEEE RNE of that value (asserted exact for P8/P16); from_f64 / From<f64> of the reference f64 returns a; Display then FromStr returns a. P8, P16: all patterns. P32: all 2^32 patterns for the float parts in both tiers, proptest structured bits, and a strided scan for text (every 512th quick / 64th thorough). Non-trivial = real non-zero pattern; distinct patterns."
        .into();
    rep.assumptions = {
        let mut a = std_assumptions();
        a.push("hardware f64 -> f32 conversion (Rust `as f32`) is IEEE round-to-nearest-even".into());
        a
    };
    super::run_corpus(rep, replay);
    rep.exhaustive("P8E0 all 256 patterns: floats + text", 1 << 8, |i, l| floats::<P8E0>(i, l).and_then(|_| text::<P8E0>(i, l)));
    rep.exhaustive("P16E1 all 65536 patterns: floats + text", 1 << 16, |i, l| floats::<P16E1>(i, l).and_then(|_| text::<P16E1>(i, l)));
    let g = tier.pick(500_000, 5_000_000);
    rep.generated("P32E2 structured bits: floats + text", g, || gen::bits(32), |&a, l| floats::<P32E2>(a, l).and_then(|_| text::<P32E2>(a, l)));
    match tier {
        Tier::Quick => {
            // complete in both tiers: a sticky mask one bit short fails on odd patterns only, and a strided
            // enumeration with a seed-dependent offset would make the verdict depend on the seed
            rep.exhaustive("P32E2 all 2^32 patterns: to_f64, to_f32, f64 round trip", 1 << 32, |i, l| floats::<P32E2>(i, l));
            let off = rep.cfg.seed % 512;
            rep.lattice("P32E2 every 512th pattern: Display/FromStr round trip", 1 << 23, move |i, l| text::<P32E2>(i * 512 + off, l));
        }
        Tier::Thorough => {
            rep.exhaustive("P32E2 all 2^32 patterns: to_f64, to_f32, f64 round trip", 1 << 32, |i, l| floats::<P32E2>(i, l));
            let off = rep.cfg.seed % 64;
            rep.lattice("P32E2 every 64th pattern: Display/FromStr round trip", 1 << 26, move |i, l| text::<P32E2>(i * 64 + off, l));
        }
    }
}

pub fn replay(op: &str, args: &[u64]) -> Result<(), Viol> {
    let mut l = Local::new(false);
    let (ty, _) = split_op(op);
    let a = arg(args, 0);
    match ty {
        "P8E0" => floats::<P8E0>(a, &mut l).and_then(|_| text::<P8E0>(a, &mut l)),
        "P16E1" => floats::<P16E1>(a, &mut l).and_then(|_| text::<P16E1>(a, &mut l)),
        _ => floats::<P32E2>(a, &mut l).and_then(|_| text::<P32E2>(a, &mut l)),
    }
}
