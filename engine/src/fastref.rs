//! Fast second implementation of posit-standard rounding (u128 significand + sticky).
#![allow(dead_code)]

/// Exact-ish real: value = (-1)^neg * (sig * 2^exp [+ epsilon if sticky]), 0 < epsilon < 2^exp.
#[derive(Clone, Copy, Debug)]
pub struct Fx {
    pub neg: bool,
    pub sig: u128,
    pub exp: i32,
    pub sticky: bool,
}
pub const FZERO: Fx = Fx { neg: false, sig: 0, exp: 0, sticky: false };

impl Fx {
    #[inline]
    pub fn is_zero(&self) -> bool {
        self.sig == 0 && !self.sticky
    }
    /// left-justify (top bit at 127)
    #[inline]
    pub fn norm(mut self) -> Fx {
        if self.sig == 0 {
            return self;
        }
        let lz = self.sig.leading_zeros();
        self.sig <<= lz;
        self.exp -= lz as i32;
        self
    }
}

/// decode n-bit posit (right aligned). None = NaR.
#[inline]
pub fn decode(n: u32, es: u32, bits: u64) -> Option<Fx> {
    let mask = (1u64 << n) - 1;
    let bits = bits & mask;
    if bits == 0 {
        return Some(FZERO);
    }
    let signbit = 1u64 << (n - 1);
    if bits == signbit {
        return None;
    }
    let neg = bits & signbit != 0;
    let p = if neg { bits.wrapping_neg() & mask } else { bits };
    // left-align body (n-1 bits) at bit 63
    let body = p << (65 - n); // drops sign bit (which is 0)
    let first = body >> 63;
    let run = if first == 1 { (!body).leading_zeros() } else { body.leading_zeros() };
    let run = run.min(n - 1);
    let k: i32 = if first == 1 { run as i32 - 1 } else { -(run as i32) };
    // bits after regime + terminator
    let used = run + 1;
    let rest = if used >= 64 { 0 } else { body << used }; // exponent+fraction left aligned
    let e = if es == 0 { 0 } else { (rest >> (64 - es)) as i32 };
    let frac = if es == 0 { rest } else { rest << es }; // fraction left aligned at bit 63
    let sig = (1u128 << 127) | ((frac as u128) << 63);
    let scale = k * (1 << es) + e;
    Some(Fx { neg, sig, exp: scale - 127, sticky: false })
}

/// encode with posit-standard rounding
#[inline]
pub fn encode(n: u32, es: u32, x: Fx) -> u64 {
    let mask = (1u64 << n) - 1;
    if x.sig == 0 {
        if x.sticky {
            // 0 < |x| < tiny
            let v = 1u64;
            return if x.neg { v.wrapping_neg() & mask } else { v };
        }
        return 0;
    }
    let x = x.norm();
    let scale = x.exp + 127;
    let k = scale >> es; // floor
    let e = (scale - (k << es)) as u128;
    let maxp = (1u64 << (n - 1)) - 1;
    let v: u64 = if k >= (n as i32 - 2) {
        maxp
    } else if k < -(n as i32 - 2) {
        1
    } else {
        // regime
        let (rl, regime): (u32, u128) = if k >= 0 {
            let ones = k as u32 + 1; // then a zero
            (ones + 1, (((1u128 << ones) - 1) << 1))
        } else {
            let zeros = (-k) as u32; // then a one
            (zeros + 1, 1)
        };
        // string = regime(rl bits) | e (es bits) | fraction (127 bits)
        let head_len = rl + es; // <= 33+2
        let head: u128 = (regime << es) | e;
        let frac = x.sig << 1; // drop hidden bit; 127 fraction bits left aligned
        let s: u128 = (head << (128 - head_len)) | (frac >> head_len);
        let lost = if head_len == 0 { 0 } else { frac << (128 - head_len) };
        let mut sticky = x.sticky || lost != 0;
        let keep = n - 1;
        let v = (s >> (128 - keep)) as u64;
        let round = (s >> (127 - keep)) & 1 == 1;
        if (s << (keep + 1)) != 0 {
            sticky = true;
        }
        let mut v = v;
        if round && (sticky || (v & 1) == 1) {
            v += 1;
        }
        if v == 0 {
            v = 1;
        }
        if v > maxp {
            v = maxp;
        }
        v
    };
    if x.neg {
        v.wrapping_neg() & mask
    } else {
        v
    }
}

/// exact product
#[inline]
pub fn mul(a: Fx, b: Fx) -> Fx {
    if a.sig == 0 || b.sig == 0 {
        return FZERO;
    }
    // inputs left-justified with <= 64 significant bits: bring to 64-bit
    let (sa, ea) = to64(a);
    let (sb, eb) = to64(b);
    Fx { neg: a.neg ^ b.neg, sig: (sa as u128) * (sb as u128), exp: ea + eb, sticky: false }.norm()
}
#[inline]
fn to64(a: Fx) -> (u64, i32) {
    let a = a.norm();
    debug_assert!(a.sig << 64 == 0, "operand has more than 64 significant bits");
    ((a.sig >> 64) as u64, a.exp + 64)
}

/// a + b with sticky (operands have <= 64 significant bits each, or the sum of two such)
#[inline]
pub fn add(a: Fx, b: Fx) -> Fx {
    if a.sig == 0 {
        return b;
    }
    if b.sig == 0 {
        return a;
    }
    let a = a.norm();
    let b = b.norm();
    // order by magnitude
    let (a, b) = if (a.exp, a.sig) >= (b.exp, b.sig) { (a, b) } else { (b, a) };
    // place a at bit 126 (one headroom bit), so exponent a.exp+1
    let ea = a.exp + 1;
    let sa = a.sig >> 1; // a has <= 120 significant bits in practice; bit lost must be 0
    debug_assert!(a.sig & 1 == 0);
    let d = (ea - b.exp) as u32; // >= 1
    let (sb, lost) = if d >= 128 { (0u128, b.sig != 0) } else { (b.sig >> d, (b.sig << (128 - d)) != 0) };
    if a.neg == b.neg {
        Fx { neg: a.neg, sig: sa + sb, exp: ea, sticky: lost || a.sticky || b.sticky }.norm()
    } else {
        // a - b ; if bits of b were lost, true value is (sa - sb) - eps  = (sa - sb - 1) + (1-eps)
        debug_assert!(!a.sticky && !b.sticky);
        let mut s = sa - sb;
        if lost {
            s -= 1;
        }
        if s == 0 && !lost {
            return FZERO;
        }
        Fx { neg: a.neg, sig: s, exp: ea, sticky: lost }.norm()
    }
}
#[inline]
pub fn neg(a: Fx) -> Fx {
    let mut a = a;
    if !a.is_zero() {
        a.neg = !a.neg;
    }
    a
}

/// a / b (b != 0), operands <= 32 significant bits each
#[inline]
pub fn div(a: Fx, b: Fx) -> Fx {
    if a.sig == 0 {
        return FZERO;
    }
    let (sa, ea) = to64(a);
    let (sb, eb) = to64(b);
    // sa, sb have top bit at 63. q = (sa << 63) / sb  -> ~64 bits
    let num = (sa as u128) << 63;
    let q = num / (sb as u128);
    let r = num % (sb as u128);
    Fx { neg: a.neg ^ b.neg, sig: q, exp: ea - eb - 63, sticky: r != 0 }.norm()
}

/// sqrt(a), a >= 0, a has <= 32 significant bits
#[inline]
pub fn sqrt(a: Fx) -> Fx {
    if a.sig == 0 {
        return FZERO;
    }
    let (sa, mut ea) = to64(a); // value = sa * 2^ea, sa top bit at 63
    // make exponent even with sa widened into u128: m = sa << s, ea - s even, s in 62..63
    let mut m = (sa as u128) << 62;
    ea -= 62;
    if ea & 1 != 0 {
        m <<= 1;
        ea -= 1;
    }
    let r = isqrt(m);
    Fx { neg: false, sig: r, exp: ea / 2, sticky: r * r != m }.norm()
}
#[inline]
fn isqrt(n: u128) -> u128 {
    if n == 0 {
        return 0;
    }
    // Newton from f64 estimate
    let mut x = (n as f64).sqrt() as u128;
    loop {
        let y = (x + n / x) >> 1;
        if y >= x {
            break;
        }
        x = y;
    }
    while x * x > n {
        x -= 1;
    }
    while (x + 1) * (x + 1) <= n {
        x += 1;
    }
    x
}

pub fn from_f64(x: f64) -> Option<Fx> {
    if !x.is_finite() {
        return None;
    }
    let b = x.to_bits();
    let neg = b >> 63 != 0;
    let e = ((b >> 52) & 0x7ff) as i32;
    let f = (b & ((1u64 << 52) - 1)) as u128;
    if e == 0 {
        if f == 0 {
            return Some(FZERO);
        }
        Some(Fx { neg, sig: f, exp: -1074, sticky: false }.norm())
    } else {
        Some(Fx { neg, sig: f | (1u128 << 52), exp: e - 1075, sticky: false }.norm())
    }
}
pub fn from_f32(x: f32) -> Option<Fx> {
    from_f64(x as f64)
}
pub fn from_u64(neg: bool, m: u64) -> Fx {
    Fx { neg: neg && m != 0, sig: m as u128, exp: 0, sticky: false }.norm()
}
