//! The oracle tests itself: slow exact model (refmodel) against the independent fast encoder
//! (fastref) on generated exact values, all (n+1)-bit thresholds +-1 for P8/P16, and the committed
//! Python/Fraction vectors.  A disagreement makes the run inconclusive (exit 2), never a violation.
use crate::core::splitmix;
use crate::fastref as fr;
use crate::refmodel::*;
use rayon::prelude::*;

pub struct SelfTest {
    pub ok: bool,
    pub summary: String,
}

fn rbits(state: &mut u64, n: u32) -> u64 {
    *state = splitmix(*state);
    let r = *state;
    let m = (1u64 << n) - 1;
    let v = match r % 10 {
        0..=3 => splitmix(r),
        4 => [0u64, 1u64 << (n - 1), 1, m >> 1, 1u64 << (n - 2), m, 2][(r >> 8) as usize % 7],
        5..=7 => {
            let run = 1 + ((r >> 8) % (n as u64 - 1).max(1)) as u32;
            let first = (r >> 20) & 1;
            let mut p = 0u64;
            let mut used = 1;
            for _ in 0..run {
                if used < n {
                    p = (p << 1) | first;
                    used += 1;
                }
            }
            if used < n {
                p = (p << 1) | (1 - first);
                used += 1;
            }
            let rest = n - used;
            if rest > 0 {
                let f = match (r >> 24) % 4 {
                    0 => 0,
                    1 => (1u64 << rest) - 1,
                    2 => 1u64 << ((r >> 32) % rest as u64),
                    _ => splitmix(r ^ 7) & ((1u64 << rest) - 1),
                };
                p = (p << rest) | f;
            }
            if (r >> 30) & 1 == 1 { p.wrapping_neg() } else { p }
        }
        _ => splitmix(r) & splitmix(r ^ 1) & splitmix(r ^ 2),
    };
    v & m
}

pub fn run(iters: u64, seed: u64) -> SelfTest {
    let chunks = 64u64;
    let per = iters / chunks + 1;
    let res: Vec<(u64, Vec<String>)> = (0..chunks)
        .into_par_iter()
        .map(|c| {
            let mut st = splitmix(seed ^ 0xabcdef ^ (c << 32));
            let mut n_cases = 0u64;
            let mut bad: Vec<String> = vec![];
            for it in 0..per {
                let (n, es) = match it % 5 {
                    0 => (8, 0),
                    1 => (16, 1),
                    2 => (32, 2),
                    3 => (2 + (splitmix(st ^ 5) % 31) as u32, 1),
                    _ => (2 + (splitmix(st ^ 9) % 31) as u32, 2),
                };
                let a = rbits(&mut st, n);
                let b = rbits(&mut st, n);
                let c3 = rbits(&mut st, n);
                let (da, db, dc) = (decode(n, es, a), decode(n, es, b), decode(n, es, c3));
                let (fa, fb, fc) = (fr::decode(n, es, a), fr::decode(n, es, b), fr::decode(n, es, c3));
                if da.is_none() != fa.is_none() {
                    bad.push(format!("decode NaR disagreement n={} a={:#x}", n, a));
                }
                if let (Some(x), Some(y), Some(z), Some(fx), Some(fy), Some(fz)) = (da, db, dc, fa, fb, fc) {
                    let mut chk = |name: &str, slow: u64, fast: u64| {
                        n_cases += 1;
                        if slow != fast && bad.len() < 10 {
                            bad.push(format!("{} n={} es={} a={:#x} b={:#x} c={:#x} slow={:#x} fast={:#x}", name, n, es, a, b, c3, slow, fast));
                        }
                    };
                    chk("id", a, fr::encode(n, es, fx));
                    chk("add", round_posit(n, es, &x.add(&y)), fr::encode(n, es, fr::add(fx, fy)));
                    chk("sub", round_posit(n, es, &x.sub(&y)), fr::encode(n, es, fr::add(fx, fr::neg(fy))));
                    chk("mul", round_posit(n, es, &x.mul(&y)), fr::encode(n, es, fr::mul(fx, fy)));
                    if !y.is_zero() {
                        chk("div", round_posit(n, es, &Quot(x, y)), fr::encode(n, es, fr::div(fx, fy)));
                    }
                    if !x.neg {
                        chk("sqrt", round_posit(n, es, &Sqrt(x)), fr::encode(n, es, fr::sqrt(fx)));
                    }
                    chk("fma", round_posit(n, es, &x.mul(&y).add(&z)), fr::encode(n, es, fr::add(fr::mul(fx, fy), fz)));
                    chk("fms", round_posit(n, es, &x.mul(&y).sub(&z)), fr::encode(n, es, fr::add(fr::mul(fx, fy), fr::neg(fz))));
                    let m = 2 + (splitmix(st ^ 77) % 31) as u32;
                    let es2 = (splitmix(st ^ 78) % 3) as u32;
                    chk("conv", round_posit(m, es2, &x), fr::encode(m, es2, fx));
                }
                st = splitmix(st);
                let f = f64::from_bits(match st % 4 {
                    0 => st,
                    _ => (((st >> 11) % 280 + 1023 - 140) << 52) | (splitmix(st) & ((1u64 << 52) - 1) & if st & 0x100 != 0 { !0 } else { !0 << 30 }) | (st & (1 << 63)),
                });
                if let (Some(d), Some(fx)) = (Dy::from_f64(f), fr::from_f64(f)) {
                    n_cases += 1;
                    let (s, q) = (round_posit(n, es, &d), fr::encode(n, es, fx));
                    if s != q && bad.len() < 10 {
                        bad.push(format!("f64 {:e} n={} es={} slow={:#x} fast={:#x}", f, n, es, s, q));
                    }
                }
                let i = splitmix(st ^ 3) as i64 >> (st % 64);
                let (s, q) = (round_posit(n, es, &Dy::from_i64(i)), fr::encode(n, es, fr::from_u64(i < 0, i.unsigned_abs())));
                n_cases += 1;
                if s != q && bad.len() < 10 {
                    bad.push(format!("i64 {} n={} es={} slow={:#x} fast={:#x}", i, n, es, s, q));
                }
            }
            (n_cases, bad)
        })
        .collect();
    let mut n_cases: u64 = res.iter().map(|r| r.0).sum();
    let mut bad: Vec<String> = res.into_iter().flat_map(|r| r.1).collect();

    // all (n+1)-bit thresholds and their neighbours in a finer format, for P8 and P16
    for &(n, es) in &[(8u32, 0u32), (16, 1)] {
        let r: Vec<String> = (0..(1u64 << (n + 2)))
            .into_par_iter()
            .filter_map(|w| {
                // every (n+2)-bit pattern: thresholds (…10), exact n-bit values (…00) and points between
                let d = decode(n + 2, es, w)?;
                let f = fr::decode(n + 2, es, w)?;
                let (s, q) = (round_posit(n, es, &d), fr::encode(n, es, f));
                if s != q { Some(format!("threshold n={} w={:#x} slow={:#x} fast={:#x}", n, w, s, q)) } else { None }
            })
            .collect();
        n_cases += 1u64 << (n + 2);
        bad.extend(r.into_iter().take(5));
    }

    // committed third-implementation vectors (Python fractions.Fraction)
    let mut vec_n = 0u64;
    let path = format!("{}/golden/round_vectors.json", crate::core::verif_dir());
    match std::fs::read_to_string(&path) {
        Ok(text) => {
            let v: serde_json::Value = serde_json::from_str(&text).unwrap_or(serde_json::Value::Null);
            if let Some(list) = v.get("vectors").and_then(|x| x.as_array()) {
                for e in list {
                    // [n, es, neg, mant(hex string), exp, want]
                    let a = e.as_array().unwrap();
                    let n = a[0].as_u64().unwrap() as u32;
                    let es = a[1].as_u64().unwrap() as u32;
                    let neg = a[2].as_bool().unwrap();
                    let mant = u128::from_str_radix(a[3].as_str().unwrap(), 16).unwrap();
                    let exp = a[4].as_i64().unwrap() as i32;
                    let want = a[5].as_u64().unwrap();
                    let d = Dy::from_u128(neg, mant, exp);
                    let s = round_posit(n, es, &d);
                    let q = fr::encode(n, es, fr::Fx { neg: neg && mant != 0, sig: mant, exp, sticky: false });
                    vec_n += 1;
                    if (s != want || q != want) && bad.len() < 20 {
                        bad.push(format!("golden vector n={} es={} mant={:#x} exp={} python={:#x} slow={:#x} fast={:#x}", n, es, mant, exp, want, s, q));
                    }
                }
            }
        }
        Err(_) => bad.push(format!("missing {}", path)),
    }
    n_cases += vec_n;
    let ok = bad.is_empty();
    SelfTest { ok, summary: format!("oracle self-test: {} cases (incl. {} python vectors), {} disagreements{}", n_cases, vec_n, bad.len(), if ok { String::new() } else { format!(": {:?}", bad) }) }
}
