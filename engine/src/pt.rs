//! One trait over the three fixed-width posit types so that property code is written once.
//! Every method is a thin call into the crate under test (inherent `const fn` spelling unless the
//! name starts with `op_`, which goes through the operator trait).
#![allow(dead_code)]
use softposit::{P16E1, P32E2, P8E0, Q16E1, Q32E2, Q8E0};

pub trait PT: Copy + Send + Sync + 'static + core::fmt::Debug {
    const N: u32;
    const ES: u32;
    const NAME: &'static str;
    type Q: QT<P = Self>;
    fn fb(b: u64) -> Self;
    fn tb(self) -> u64;
    // arithmetic, inherent const fns
    fn add(self, o: Self) -> Self;
    fn sub(self, o: Self) -> Self;
    fn mul(self, o: Self) -> Self;
    fn div(self, o: Self) -> Self;
    fn rem(self, o: Self) -> Self;
    fn neg(self) -> Self;
    // operator traits
    fn op_add(self, o: Self) -> Self;
    fn op_sub(self, o: Self) -> Self;
    fn op_mul(self, o: Self) -> Self;
    fn op_div(self, o: Self) -> Self;
    fn op_rem(self, o: Self) -> Self;
    fn op_neg(self) -> Self;
    fn op_add_assign(self, o: Self) -> Self;
    fn op_sub_assign(self, o: Self) -> Self;
    fn op_mul_assign(self, o: Self) -> Self;
    fn op_div_assign(self, o: Self) -> Self;
    fn op_rem_assign(self, o: Self) -> Self;
    // fused
    fn mul_add(self, b: Self, c: Self) -> Self;
    fn mul_sub(self, b: Self, c: Self) -> Self;
    fn sub_product(self, a: Self, b: Self) -> Self;
    // unary math
    fn sqrt(self) -> Self;
    fn round(self) -> Self;
    fn floor(self) -> Self;
    fn ceil(self) -> Self;
    fn trunc(self) -> Self;
    fn fract(self) -> Self;
    // floats
    fn from_f32(x: f32) -> Self;
    fn from_f64(x: f64) -> Self;
    fn to_f32(self) -> f32;
    fn to_f64(self) -> f64;
    fn conv_from_f32(x: f32) -> Self;
    fn conv_from_f64(x: f64) -> Self;
    /// `num_traits` spellings of the float conversions (C02 judges them with the exact oracle, C17 differentially)
    fn nt_from_f32(x: f32) -> Option<Self>;
    fn nt_from_f64(x: f64) -> Option<Self>;
    fn nc_from_f32(x: f32) -> Option<Self>;
    fn nc_from_f64(x: f64) -> Option<Self>;
    fn conv_to_f32(self) -> f32;
    fn conv_to_f64(self) -> f64;
    // ints
    fn from_i8(x: i8) -> Self;
    fn from_u8(x: u8) -> Self;
    fn from_i16(x: i16) -> Self;
    fn from_u16(x: u16) -> Self;
    fn from_i32(x: i32) -> Self;
    fn from_u32(x: u32) -> Self;
    fn from_i64(x: i64) -> Self;
    fn from_u64(x: u64) -> Self;
    fn from_isize(x: isize) -> Self;
    fn from_usize(x: usize) -> Self;
    fn to_i32(self) -> i32;
    fn to_u32(self) -> u32;
    fn to_i64(self) -> i64;
    fn to_u64(self) -> u64;
    // text
    fn to_text(self) -> String;
    fn parse(s: &str) -> Option<Self>;
    // order and sign
    fn eq(self, o: Self) -> bool;
    fn lt(self, o: Self) -> bool;
    fn le(self, o: Self) -> bool;
    fn gt(self, o: Self) -> bool;
    fn ge(self, o: Self) -> bool;
    fn cmp(self, o: Self) -> core::cmp::Ordering;
    fn op_eq(self, o: Self) -> bool;
    fn op_lt(self, o: Self) -> bool;
    fn op_le(self, o: Self) -> bool;
    fn op_gt(self, o: Self) -> bool;
    fn op_ge(self, o: Self) -> bool;
    fn op_cmp(self, o: Self) -> core::cmp::Ordering;
    fn op_partial_cmp(self, o: Self) -> Option<core::cmp::Ordering>;
    fn min(self, o: Self) -> Self;
    fn max(self, o: Self) -> Self;
    fn clamp(self, lo: Self, hi: Self) -> Self;
    fn ord_min(self, o: Self) -> Self;
    fn ord_max(self, o: Self) -> Self;
    fn ord_clamp(self, lo: Self, hi: Self) -> Self;
    fn abs(self) -> Self;
    fn signum(self) -> Self;
    fn copysign(self, o: Self) -> Self;
    fn is_sign_positive(self) -> bool;
    fn is_sign_negative(self) -> bool;
    fn is_zero(self) -> bool;
    fn is_nar(self) -> bool;
    fn is_nan(self) -> bool;
    fn is_finite(self) -> bool;
    fn is_infinite(self) -> bool;
    fn is_normal(self) -> bool;
    fn classify(self) -> core::num::FpCategory;
}

/// The quire belonging to a fixed-width posit type.
pub trait QT: Sized + Send + Sync + 'static {
    type P: PT;
    const BITS: u32;
    /// number of fraction bits of the fixed-point image (the weight of bit 0 is 2^-FRAC)
    const FRAC: u32;
    const NAME: &'static str;
    fn init() -> Self;
    fn from_posit(p: Self::P) -> Self;
    fn conv_from(p: Self::P) -> Self;
    fn to_posit(&self) -> Self::P;
    fn conv_to(&self) -> Self::P;
    /// `P::from(q)` by value (the quire is copied through its bit image)
    fn conv_to_val(&self) -> Self::P;
    /// image as eight u64 limbs, most significant first (shorter quires are right-aligned and
    /// sign-extended by the caller when needed; here unused high limbs are zero)
    fn image(&self) -> [u64; 8];
    fn from_image(v: [u64; 8]) -> Self;
    fn is_zero(&self) -> bool;
    fn is_nar(&self) -> bool;
    fn add_product(&mut self, a: Self::P, b: Self::P);
    fn sub_product(&mut self, a: Self::P, b: Self::P);
    fn clear(&mut self);
    fn neg(&mut self);
    fn into_two(self) -> (Self::P, Self::P);
    fn into_three(self) -> (Self::P, Self::P, Self::P);
    fn add_posit(&mut self, p: Self::P);
    fn sub_posit(&mut self, p: Self::P);
    fn add_tuple(&mut self, a: Self::P, b: Self::P);
    fn sub_tuple(&mut self, a: Self::P, b: Self::P);
    /// `q += (a, (b, c))`  i.e. a*b*c? no: the crate defines it as a * (b * c) rounded? see C04
    fn add_t12(&mut self, a: Self::P, b: Self::P, c: Self::P);
    fn sub_t12(&mut self, a: Self::P, b: Self::P, c: Self::P);
    fn add_t13(&mut self, a: Self::P, b: Self::P, c: Self::P, d: Self::P);
    fn add_t22(&mut self, a: Self::P, b: Self::P, c: Self::P, d: Self::P);
    fn sub_t22(&mut self, a: Self::P, b: Self::P, c: Self::P, d: Self::P);
    fn add_arr(&mut self, a: Self::P, arr: &[Self::P]);
    fn sub_arr(&mut self, a: Self::P, arr: &[Self::P]);
    // trait spellings (softposit::Quire)
    fn t_init() -> Self;
    fn t_from_posit(p: Self::P) -> Self;
    fn t_to_posit(&self) -> Self::P;
    fn t_image(&self) -> [u64; 8];
    fn t_from_image(v: [u64; 8]) -> Self;
    fn t_is_zero(&self) -> bool;
    fn t_is_nar(&self) -> bool;
    fn t_add_product(&mut self, a: Self::P, b: Self::P);
    fn t_sub_product(&mut self, a: Self::P, b: Self::P);
    fn t_clear(&mut self);
    fn t_neg(&mut self);
}

macro_rules! impl_pt {
    ($P:ty, $U:ty, $I:ty, $n:expr, $es:expr, $name:expr, $Q:ty) => {
        impl PT for $P {
            const N: u32 = $n;
            const ES: u32 = $es;
            const NAME: &'static str = $name;
            type Q = $Q;
            #[inline] fn fb(b: u64) -> Self { <$P>::from_bits(b as $U) }
            #[inline] fn tb(self) -> u64 { self.to_bits() as u64 }
            #[inline] fn add(self, o: Self) -> Self { <$P>::add(self, o) }
            #[inline] fn sub(self, o: Self) -> Self { <$P>::sub(self, o) }
            #[inline] fn mul(self, o: Self) -> Self { <$P>::mul(self, o) }
            #[inline] fn div(self, o: Self) -> Self { <$P>::div(self, o) }
            #[inline] fn rem(self, o: Self) -> Self { <$P>::rem(self, o) }
            #[inline] fn neg(self) -> Self { <$P>::neg(self) }
            #[inline] fn op_add(self, o: Self) -> Self { core::ops::Add::add(self, o) }
            #[inline] fn op_sub(self, o: Self) -> Self { core::ops::Sub::sub(self, o) }
            #[inline] fn op_mul(self, o: Self) -> Self { core::ops::Mul::mul(self, o) }
            #[inline] fn op_div(self, o: Self) -> Self { core::ops::Div::div(self, o) }
            #[inline] fn op_rem(self, o: Self) -> Self { core::ops::Rem::rem(self, o) }
            #[inline] fn op_neg(self) -> Self { core::ops::Neg::neg(self) }
            #[inline] fn op_add_assign(self, o: Self) -> Self { let mut x = self; x += o; x }
            #[inline] fn op_sub_assign(self, o: Self) -> Self { let mut x = self; x -= o; x }
            #[inline] fn op_mul_assign(self, o: Self) -> Self { let mut x = self; x *= o; x }
            #[inline] fn op_div_assign(self, o: Self) -> Self { let mut x = self; x /= o; x }
            #[inline] fn op_rem_assign(self, o: Self) -> Self { let mut x = self; x %= o; x }
            #[inline] fn mul_add(self, b: Self, c: Self) -> Self { <$P>::mul_add(self, b, c) }
            #[inline] fn mul_sub(self, b: Self, c: Self) -> Self { <$P>::mul_sub(self, b, c) }
            #[inline] fn sub_product(self, a: Self, b: Self) -> Self { <$P>::sub_product(self, a, b) }
            #[inline] fn sqrt(self) -> Self { <$P>::sqrt(self) }
            #[inline] fn round(self) -> Self { <$P>::round(self) }
            #[inline] fn floor(self) -> Self { <$P>::floor(self) }
            #[inline] fn ceil(self) -> Self { <$P>::ceil(self) }
            #[inline] fn trunc(self) -> Self { <$P>::trunc(self) }
            #[inline] fn fract(self) -> Self { <$P>::fract(self) }
            #[inline] fn from_f32(x: f32) -> Self { <$P>::from_f32(x) }
            #[inline] fn from_f64(x: f64) -> Self { <$P>::from_f64(x) }
            #[inline] fn to_f32(self) -> f32 { <$P>::to_f32(self) }
            #[inline] fn to_f64(self) -> f64 { <$P>::to_f64(self) }
            #[inline] fn conv_from_f32(x: f32) -> Self { <$P as From<f32>>::from(x) }
            #[inline] fn conv_from_f64(x: f64) -> Self { <$P as From<f64>>::from(x) }
            #[inline] fn nt_from_f32(x: f32) -> Option<Self> { <$P as num_traits::FromPrimitive>::from_f32(x) }
            #[inline] fn nt_from_f64(x: f64) -> Option<Self> { <$P as num_traits::FromPrimitive>::from_f64(x) }
            #[inline] fn nc_from_f32(x: f32) -> Option<Self> { <$P as num_traits::NumCast>::from(x) }
            #[inline] fn nc_from_f64(x: f64) -> Option<Self> { <$P as num_traits::NumCast>::from(x) }
            #[inline] fn conv_to_f32(self) -> f32 { <f32 as From<$P>>::from(self) }
            #[inline] fn conv_to_f64(self) -> f64 { <f64 as From<$P>>::from(self) }
            #[inline] fn from_i8(x: i8) -> Self { <$P>::from_i8(x) }
            #[inline] fn from_u8(x: u8) -> Self { <$P>::from_u8(x) }
            #[inline] fn from_i16(x: i16) -> Self { <$P>::from_i16(x) }
            #[inline] fn from_u16(x: u16) -> Self { <$P>::from_u16(x) }
            #[inline] fn from_i32(x: i32) -> Self { <$P>::from_i32(x) }
            #[inline] fn from_u32(x: u32) -> Self { <$P>::from_u32(x) }
            #[inline] fn from_i64(x: i64) -> Self { <$P>::from_i64(x) }
            #[inline] fn from_u64(x: u64) -> Self { <$P>::from_u64(x) }
            #[inline] fn from_isize(x: isize) -> Self { <$P>::from_isize(x) }
            #[inline] fn from_usize(x: usize) -> Self { <$P>::from_usize(x) }
            #[inline] fn to_i32(self) -> i32 { <$P>::to_i32(self) }
            #[inline] fn to_u32(self) -> u32 { <$P>::to_u32(self) }
            #[inline] fn to_i64(self) -> i64 { <$P>::to_i64(self) }
            #[inline] fn to_u64(self) -> u64 { <$P>::to_u64(self) }
            fn to_text(self) -> String { format!("{}", self) }
            fn parse(s: &str) -> Option<Self> { s.parse::<$P>().ok() }
            #[inline] fn eq(self, o: Self) -> bool { <$P>::eq(self, o) }
            #[inline] fn lt(self, o: Self) -> bool { <$P>::lt(&self, o) }
            #[inline] fn le(self, o: Self) -> bool { <$P>::le(&self, o) }
            #[inline] fn gt(self, o: Self) -> bool { <$P>::gt(&self, o) }
            #[inline] fn ge(self, o: Self) -> bool { <$P>::ge(&self, o) }
            #[inline] fn cmp(self, o: Self) -> core::cmp::Ordering { <$P>::cmp(self, o) }
            #[inline] fn op_eq(self, o: Self) -> bool { PartialEq::eq(&self, &o) }
            #[inline] fn op_lt(self, o: Self) -> bool { PartialOrd::lt(&self, &o) }
            #[inline] fn op_le(self, o: Self) -> bool { PartialOrd::le(&self, &o) }
            #[inline] fn op_gt(self, o: Self) -> bool { PartialOrd::gt(&self, &o) }
            #[inline] fn op_ge(self, o: Self) -> bool { PartialOrd::ge(&self, &o) }
            #[inline] fn op_cmp(self, o: Self) -> core::cmp::Ordering { Ord::cmp(&self, &o) }
            #[inline] fn op_partial_cmp(self, o: Self) -> Option<core::cmp::Ordering> { PartialOrd::partial_cmp(&self, &o) }
            #[inline] fn min(self, o: Self) -> Self { <$P>::min(self, o) }
            #[inline] fn max(self, o: Self) -> Self { <$P>::max(self, o) }
            #[inline] fn clamp(self, lo: Self, hi: Self) -> Self { <$P>::clamp(self, lo, hi) }
            #[inline] fn ord_min(self, o: Self) -> Self { Ord::min(self, o) }
            #[inline] fn ord_max(self, o: Self) -> Self { Ord::max(self, o) }
            #[inline] fn ord_clamp(self, lo: Self, hi: Self) -> Self { Ord::clamp(self, lo, hi) }
            #[inline] fn abs(self) -> Self { <$P>::abs(self) }
            #[inline] fn signum(self) -> Self { <$P>::signum(self) }
            #[inline] fn copysign(self, o: Self) -> Self { <$P>::copysign(self, o) }
            #[inline] fn is_sign_positive(self) -> bool { <$P>::is_sign_positive(self) }
            #[inline] fn is_sign_negative(self) -> bool { <$P>::is_sign_negative(self) }
            #[inline] fn is_zero(self) -> bool { <$P>::is_zero(self) }
            #[inline] fn is_nar(self) -> bool { <$P>::is_nar(self) }
            #[inline] fn is_nan(self) -> bool { <$P>::is_nan(self) }
            #[inline] fn is_finite(self) -> bool { <$P>::is_finite(self) }
            #[inline] fn is_infinite(self) -> bool { <$P>::is_infinite(self) }
            #[inline] fn is_normal(self) -> bool { <$P>::is_normal(self) }
            #[inline] fn classify(self) -> core::num::FpCategory { <$P>::classify(self) }
        }
    };
}

impl_pt!(P8E0, u8, i8, 8, 0, "P8E0", Q8E0);
impl_pt!(P16E1, u16, i16, 16, 1, "P16E1", Q16E1);
impl_pt!(P32E2, u32, i32, 32, 2, "P32E2", Q32E2);

macro_rules! impl_qt_common {
    ($Q:ty, $P:ty) => {
        #[inline] fn init() -> Self { <$Q>::init() }
        #[inline] fn from_posit(p: $P) -> Self { <$Q>::from_posit(p) }
        #[inline] fn conv_from(p: $P) -> Self { <$Q as From<$P>>::from(p) }
        #[inline] fn to_posit(&self) -> $P { <$Q>::to_posit(self) }
        #[inline] fn conv_to(&self) -> $P { <$P as From<&$Q>>::from(self) }
        #[inline] fn conv_to_val(&self) -> $P { <$P as From<$Q>>::from(<$Q as QT>::from_image(<$Q as QT>::image(self))) }
        #[inline] fn is_zero(&self) -> bool { <$Q>::is_zero(self) }
        #[inline] fn is_nar(&self) -> bool { <$Q>::is_nar(self) }
        #[inline] fn add_product(&mut self, a: $P, b: $P) { <$Q>::add_product(self, a, b) }
        #[inline] fn sub_product(&mut self, a: $P, b: $P) { <$Q>::sub_product(self, a, b) }
        #[inline] fn clear(&mut self) { <$Q>::clear(self) }
        #[inline] fn neg(&mut self) { <$Q>::neg(self) }
        #[inline] fn into_two(self) -> ($P, $P) { <$Q>::into_two_posits(self) }
        #[inline] fn into_three(self) -> ($P, $P, $P) { <$Q>::into_three_posits(self) }
        #[inline] fn add_posit(&mut self, p: $P) { *self += p; }
        #[inline] fn sub_posit(&mut self, p: $P) { *self -= p; }
        #[inline] fn add_tuple(&mut self, a: $P, b: $P) { *self += (a, b); }
        #[inline] fn sub_tuple(&mut self, a: $P, b: $P) { *self -= (a, b); }
        #[inline] fn add_t12(&mut self, a: $P, b: $P, c: $P) { *self += (a, (b, c)); }
        #[inline] fn sub_t12(&mut self, a: $P, b: $P, c: $P) { *self -= (a, (b, c)); }
        #[inline] fn add_t13(&mut self, a: $P, b: $P, c: $P, d: $P) { *self += (a, (b, c, d)); }
        #[inline] fn add_t22(&mut self, a: $P, b: $P, c: $P, d: $P) { *self += ((a, b), (c, d)); }
        #[inline] fn sub_t22(&mut self, a: $P, b: $P, c: $P, d: $P) { *self -= ((a, b), (c, d)); }
        fn add_arr(&mut self, a: $P, arr: &[$P]) {
            match arr.len() {
                1 => *self += (a, [arr[0]]),
                2 => *self += (a, [arr[0], arr[1]]),
                3 => *self += (a, [arr[0], arr[1], arr[2]]),
                _ => *self += (a, [arr[0], arr[1], arr[2], arr[3]]),
            }
        }
        fn sub_arr(&mut self, a: $P, arr: &[$P]) {
            match arr.len() {
                1 => *self -= (a, [arr[0]]),
                2 => *self -= (a, [arr[0], arr[1]]),
                3 => *self -= (a, [arr[0], arr[1], arr[2]]),
                _ => *self -= (a, [arr[0], arr[1], arr[2], arr[3]]),
            }
        }
        #[inline] fn t_init() -> Self { <$Q as softposit::Quire<$P>>::init() }
        #[inline] fn t_from_posit(p: $P) -> Self { <$Q as softposit::Quire<$P>>::from_posit(p) }
        #[inline] fn t_to_posit(&self) -> $P { <$Q as softposit::Quire<$P>>::to_posit(self) }
        #[inline] fn t_is_zero(&self) -> bool { <$Q as softposit::Quire<$P>>::is_zero(self) }
        #[inline] fn t_is_nar(&self) -> bool { <$Q as softposit::Quire<$P>>::is_nar(self) }
        #[inline] fn t_add_product(&mut self, a: $P, b: $P) { <$Q as softposit::Quire<$P>>::add_product(self, a, b) }
        #[inline] fn t_sub_product(&mut self, a: $P, b: $P) { <$Q as softposit::Quire<$P>>::sub_product(self, a, b) }
        #[inline] fn t_clear(&mut self) { <$Q as softposit::Quire<$P>>::clear(self) }
        #[inline] fn t_neg(&mut self) { <$Q as softposit::Quire<$P>>::neg(self) }
    };
}

impl QT for Q8E0 {
    type P = P8E0;
    const BITS: u32 = 32;
    const FRAC: u32 = 12;
    const NAME: &'static str = "Q8E0";
    impl_qt_common!(Q8E0, P8E0);
    fn image(&self) -> [u64; 8] { [0, 0, 0, 0, 0, 0, 0, <Q8E0>::to_bits(self) as u64] }
    fn from_image(v: [u64; 8]) -> Self { <Q8E0>::from_bits(v[7] as u32) }
    fn t_image(&self) -> [u64; 8] { [0, 0, 0, 0, 0, 0, 0, <Q8E0 as softposit::Quire<P8E0>>::to_bits(self) as u64] }
    fn t_from_image(v: [u64; 8]) -> Self { <Q8E0 as softposit::Quire<P8E0>>::from_bits(v[7] as u32) }
}
impl QT for Q16E1 {
    type P = P16E1;
    const BITS: u32 = 128;
    const FRAC: u32 = 56;
    const NAME: &'static str = "Q16E1";
    impl_qt_common!(Q16E1, P16E1);
    fn image(&self) -> [u64; 8] { let b = <Q16E1>::to_bits(self); [0, 0, 0, 0, 0, 0, (b >> 64) as u64, b as u64] }
    fn from_image(v: [u64; 8]) -> Self { <Q16E1>::from_bits(((v[6] as u128) << 64) | v[7] as u128) }
    fn t_image(&self) -> [u64; 8] { let b = <Q16E1 as softposit::Quire<P16E1>>::to_bits(self); [0, 0, 0, 0, 0, 0, (b >> 64) as u64, b as u64] }
    fn t_from_image(v: [u64; 8]) -> Self { <Q16E1 as softposit::Quire<P16E1>>::from_bits(((v[6] as u128) << 64) | v[7] as u128) }
}
impl QT for Q32E2 {
    type P = P32E2;
    const BITS: u32 = 512;
    const FRAC: u32 = 240;
    const NAME: &'static str = "Q32E2";
    impl_qt_common!(Q32E2, P32E2);
    fn image(&self) -> [u64; 8] { <Q32E2>::to_bits(self) }
    fn from_image(v: [u64; 8]) -> Self { <Q32E2>::from_bits(v) }
    fn t_image(&self) -> [u64; 8] { <Q32E2 as softposit::Quire<P32E2>>::to_bits(self) }
    fn t_from_image(v: [u64; 8]) -> Self { <Q32E2 as softposit::Quire<P32E2>>::from_bits(v) }
}
