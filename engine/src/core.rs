//! Engine core: run configuration, per-chunk statistics, exhaustive and proptest-driven drivers,
//! panic capture, replay files and evidence output.
#![allow(dead_code)]
use proptest::strategy::Strategy;
use proptest::test_runner::{Config, RngSeed, TestCaseError, TestError, TestRunner};
use rayon::prelude::*;
use serde_json::{json, Value};
use std::cell::RefCell;
use std::collections::{BTreeMap, HashSet};
use std::panic::{catch_unwind, AssertUnwindSafe};
use std::time::Instant;

/// root of the verification tree; `VCHECK_VERIF_DIR` redirects it (used only by the mutant-evaluation
/// tooling, which runs a scratch copy of the engine against a scratch worktree)
/// Work divisor of the coverage-measurement mode (tools/coverage.sh): VCHECK_COV_DIV=k thins every
/// large enumeration to every k-th index and every generated section to 1/k of its cases, so that an
/// llvm-cov-instrumented single-threaded build finishes. Never set by a registered command; a run in
/// this mode exits 2 (it decides nothing).
pub fn cov_div() -> u64 {
    static D: std::sync::OnceLock<u64> = std::sync::OnceLock::new();
    *D.get_or_init(|| std::env::var("VCHECK_COV_DIV").ok().and_then(|v| v.parse().ok()).filter(|&k| k >= 1).unwrap_or(1))
}

pub fn verif_dir() -> String {
    std::env::var("VCHECK_VERIF_DIR").unwrap_or_else(|_| "/verif".to_string())
}

#[derive(Clone, Copy, PartialEq, Eq, Debug)]
pub enum Tier {
    Quick,
    Thorough,
}
impl Tier {
    pub fn name(self) -> &'static str {
        match self {
            Tier::Quick => "quick",
            Tier::Thorough => "thorough",
        }
    }
    /// pick a count by tier
    pub fn pick(self, quick: u64, thorough: u64) -> u64 {
        match self {
            Tier::Quick => quick,
            Tier::Thorough => thorough,
        }
    }
}

#[derive(Clone, Copy)]
pub struct Cfg {
    pub prop: &'static str,
    pub tier: Tier,
    pub seed: u64,
}

pub fn splitmix(mut x: u64) -> u64 {
    x = x.wrapping_add(0x9E37_79B9_7F4A_7C15);
    let mut z = x;
    z = (z ^ (z >> 30)).wrapping_mul(0xBF58_476D_1CE4_E5B9);
    z = (z ^ (z >> 27)).wrapping_mul(0x94D0_49BB_1331_11EB);
    z ^ (z >> 31)
}
pub fn hash_str(s: &str) -> u64 {
    let mut h = 0xcbf2_9ce4_8422_2325u64;
    for b in s.bytes() {
        h ^= b as u64;
        h = h.wrapping_mul(0x100_0000_01b3);
    }
    h
}
pub fn hash_args(op: u64, args: &[u64]) -> u64 {
    let mut h = splitmix(op ^ 0x51ed_2701);
    for &a in args {
        h = splitmix(h ^ a);
    }
    h
}

// ---------------------------------------------------------------- panic capture

thread_local! {
    static LAST_PANIC: RefCell<Option<String>> = const { RefCell::new(None) };
    static IN_GUARD: RefCell<bool> = const { RefCell::new(false) };
}

pub fn install_panic_hook() {
    let default = std::panic::take_hook();
    std::panic::set_hook(Box::new(move |info| {
        let in_guard = IN_GUARD.with(|g| *g.borrow());
        if in_guard {
            let loc = info.location().map(|l| format!("{}:{}", l.file().trim_start_matches("/repo/"), l.line())).unwrap_or_default();
            let msg = if let Some(s) = info.payload().downcast_ref::<&str>() {
                s.to_string()
            } else if let Some(s) = info.payload().downcast_ref::<String>() {
                s.clone()
            } else {
                "panic".to_string()
            };
            LAST_PANIC.with(|p| *p.borrow_mut() = Some(format!("{}: {}", loc, msg)));
        } else {
            default(info);
        }
    }));
}

/// Run a call into the crate under test; a panic inside becomes Err("file:line: message").
/// Only crate calls go through here, so harness bugs are never mistaken for crate panics.
#[inline]
pub fn guard<T>(f: impl FnOnce() -> T) -> Result<T, String> {
    IN_GUARD.with(|g| *g.borrow_mut() = true);
    #[cfg(fuzzing)]
    crate::fuzzhook::enter();
    let r = catch_unwind(AssertUnwindSafe(f));
    #[cfg(fuzzing)]
    crate::fuzzhook::exit();
    IN_GUARD.with(|g| *g.borrow_mut() = false);
    match r {
        Ok(v) => Ok(v),
        Err(_) => Err(LAST_PANIC.with(|p| p.borrow_mut().take()).unwrap_or_else(|| "panic".into())),
    }
}

// ---------------------------------------------------------------- violations

#[derive(Clone, Debug)]
pub struct Viol {
    pub op: String,
    pub args: Vec<u64>,
    pub want: String,
    pub got: String,
    /// "wrong" | "panic" | "hang"
    pub kind: &'static str,
}
impl Viol {
    pub fn wrong(op: impl Into<String>, args: &[u64], want: u64, got: u64) -> Viol {
        Viol { op: op.into(), args: args.to_vec(), want: format!("{:#x}", want), got: format!("{:#x}", got), kind: "wrong" }
    }
    pub fn wrong_s(op: impl Into<String>, args: &[u64], want: String, got: String) -> Viol {
        Viol { op: op.into(), args: args.to_vec(), want, got, kind: "wrong" }
    }
    pub fn panic(op: impl Into<String>, args: &[u64], want: String, msg: String) -> Viol {
        Viol { op: op.into(), args: args.to_vec(), want, got: msg, kind: "panic" }
    }
    pub fn to_json(&self, cfg: &Cfg) -> Value {
        json!({
            "property": cfg.prop, "op": self.op,
            "args": self.args.iter().map(|a| format!("{:#x}", a)).collect::<Vec<_>>(),
            "want": self.want, "got": self.got, "kind": self.kind,
            "seed": cfg.seed, "tier": cfg.tier.name(),
        })
    }
}

/// compare a guarded bit result with the expected bits
#[inline]
pub fn expect_bits(op: &str, args: &[u64], want: u64, got: Result<u64, String>) -> Result<(), Viol> {
    match got {
        Ok(g) if g == want => Ok(()),
        Ok(g) => Err(Viol::wrong(op, args, want, g)),
        Err(m) => Err(Viol::panic(op, args, format!("{:#x}", want), m)),
    }
}

// ---------------------------------------------------------------- statistics

pub struct Local {
    pub evals: u64,
    pub nontrivial: u64,
    pub distinct: HashSet<u64>,
    pub track_distinct: bool,
    pub labels: BTreeMap<&'static str, u64>,
    pub samples: Vec<Value>,
    pub viols: Vec<Viol>,
    pub known: BTreeMap<String, u64>,
    pub frozen: bool,
}
impl Local {
    pub fn new(track_distinct: bool) -> Local {
        Local { evals: 0, nontrivial: 0, distinct: HashSet::new(), track_distinct, labels: BTreeMap::new(), samples: vec![], viols: vec![], known: BTreeMap::new(), frozen: false }
    }
    #[inline]
    pub fn eval(&mut self) {
        if !self.frozen {
            self.evals += 1;
        }
    }
    #[inline]
    pub fn evaln(&mut self, n: u64) {
        if !self.frozen {
            self.evals += n;
        }
    }
    /// record a non-trivial case identified by hash `h`
    #[inline]
    pub fn nontrivial(&mut self, h: u64) {
        if self.frozen {
            return;
        }
        self.nontrivial += 1;
        if self.track_distinct && self.distinct.len() < 400_000 {
            self.distinct.insert(h);
        }
    }
    #[inline]
    pub fn label(&mut self, l: &'static str) {
        if !self.frozen {
            *self.labels.entry(l).or_insert(0) += 1;
        }
    }
    #[inline]
    pub fn labeln(&mut self, l: &'static str, n: u64) {
        if !self.frozen && n > 0 {
            *self.labels.entry(l).or_insert(0) += n;
        }
    }
    #[inline]
    pub fn sample(&mut self, f: impl FnOnce() -> Value) {
        if !self.frozen && self.samples.len() < 2 {
            self.samples.push(f());
        }
    }
    /// record the outcome of one oracle comparison; known findings are counted and excused
    pub fn outcome(&mut self, prop: &str, r: Result<(), Viol>) -> Result<(), Viol> {
        match r {
            Ok(()) => Ok(()),
            Err(v) => {
                if let Some(id) = crate::findings::matches(prop, &v) {
                    if !self.frozen {
                        *self.known.entry(id.to_string()).or_insert(0) += 1;
                    }
                    Ok(())
                } else {
                    Err(v)
                }
            }
        }
    }
}

pub struct SectionOut {
    pub name: String,
    pub exhaustive: bool,
    pub evals: u64,
    pub nontrivial: u64,
    pub distinct: u64,
    pub labels: BTreeMap<String, u64>,
    pub samples: Vec<Value>,
    pub viols: Vec<Viol>,
    pub known: BTreeMap<String, u64>,
    pub wall_s: f64,
}

pub struct Report {
    pub cfg: Cfg,
    pub sections: Vec<SectionOut>,
    pub t0: Instant,
    pub rule: String,
    pub assumptions: Vec<String>,
    pub extra: BTreeMap<String, Value>,
    pub inconclusive: Vec<String>,
    /// set by a property whose exhaustive sections together enumerate its whole input domain even
    /// though it also runs generated sections on top
    pub complete: bool,
}

fn merge(name: &str, exhaustive: bool, locals: Vec<Local>, wall_s: f64) -> SectionOut {
    let mut out = SectionOut { name: name.to_string(), exhaustive, evals: 0, nontrivial: 0, distinct: 0, labels: BTreeMap::new(), samples: vec![], viols: vec![], known: BTreeMap::new(), wall_s };
    let mut set: HashSet<u64> = HashSet::new();
    for l in locals {
        out.evals += l.evals;
        out.nontrivial += l.nontrivial;
        for (k, v) in l.labels {
            *out.labels.entry(k.to_string()).or_insert(0) += v;
        }
        for s in l.samples {
            if out.samples.len() < 6 {
                out.samples.push(s);
            }
        }
        for v in l.viols {
            if out.viols.len() < 8 {
                out.viols.push(v);
            }
        }
        for (k, v) in l.known {
            *out.known.entry(k).or_insert(0) += v;
        }
        if !exhaustive && set.len() < 8_000_000 {
            set.extend(l.distinct);
        }
    }
    out.distinct = if exhaustive { out.nontrivial } else { set.len() as u64 };
    out
}

impl Report {
    pub fn new(cfg: Cfg) -> Report {
        Report { cfg, sections: vec![], t0: Instant::now(), rule: String::new(), assumptions: vec![], extra: BTreeMap::new(), inconclusive: vec![], complete: false }
    }

    /// Complete enumeration of indices 0..total; `f` is called once per index.
    pub fn exhaustive<F>(&mut self, name: &str, total: u64, f: F)
    where
        F: Fn(u64, &mut Local) -> Result<(), Viol> + Sync,
    {
        self.enumerate(name, true, total, f)
    }

    /// Enumeration of a stated sub-lattice (not the complete domain): same driver, reported as
    /// exhaustive=false for the property but every index is distinct by construction.
    pub fn lattice<F>(&mut self, name: &str, total: u64, f: F)
    where
        F: Fn(u64, &mut Local) -> Result<(), Viol> + Sync,
    {
        self.enumerate(name, false, total, f)
    }

    fn enumerate<F>(&mut self, name: &str, exhaustive: bool, total: u64, f: F)
    where
        F: Fn(u64, &mut Local) -> Result<(), Viol> + Sync,
    {
        let t = Instant::now();
        let nchunks: u64 = if total < 4096 { 1 } else { 1024.min(total / 1024).max(1) };
        let prop = self.cfg.prop;
        let locals: Vec<Local> = (0..nchunks)
            .into_par_iter()
            .map(|c| {
                let lo = (total as u128 * c as u128 / nchunks as u128) as u64;
                let hi = (total as u128 * (c as u128 + 1) / nchunks as u128) as u64;
                let mut l = Local::new(false);
                let step = if total > 1 << 16 { cov_div() as usize } else { 1 };
                for i in (lo..hi).step_by(step) {
                    let r = f(i, &mut l);
                    if let Err(v) = l.outcome(prop, r) {
                        if l.viols.len() < 4 {
                            l.viols.push(v);
                        }
                    }
                }
                l
            })
            .collect();
        let mut out = merge(name, exhaustive, locals, t.elapsed().as_secs_f64());
        if !exhaustive {
            out.distinct = out.nontrivial;
        }
        self.sections.push(out);
    }

    /// proptest-driven generation: `cases` cases over a fixed number of chunks, each chunk with its
    /// own deterministic TestRunner; a failure is shrunk by proptest and recorded.
    pub fn generated<S, M, F>(&mut self, name: &str, cases: u64, mk: M, f: F)
    where
        S: Strategy,
        S::Value: Clone,
        M: Fn() -> S + Sync,
        F: Fn(&S::Value, &mut Local) -> Result<(), Viol> + Sync,
    {
        let t = Instant::now();
        let nchunks: u64 = if cases < 2048 { 1 } else { 64 };
        let per = ((cases + nchunks - 1) / nchunks / cov_div()).max(1);
        let base = splitmix(self.cfg.seed ^ hash_str(self.cfg.prop).rotate_left(17) ^ hash_str(name));
        let prop = self.cfg.prop;
        let locals: Vec<Local> = (0..nchunks)
            .into_par_iter()
            .map(|c| {
                let seed = splitmix(base ^ (c.wrapping_mul(0x9E37_79B9)));
                let cfg = Config { cases: per as u32, rng_seed: RngSeed::Fixed(seed), failure_persistence: None, max_shrink_iters: 3000, max_global_rejects: 1 << 20, ..Config::default() };
                let mut runner = TestRunner::new(cfg);
                let strat = mk();
                let local = RefCell::new(Local::new(true));
                let res = runner.run(&strat, |v| {
                    let mut l = local.borrow_mut();
                    let r = f(&v, &mut l);
                    match l.outcome(prop, r) {
                        Ok(()) => Ok(()),
                        Err(viol) => {
                            l.frozen = true; // the closure is re-entered while shrinking: stop counting
                            Err(TestCaseError::fail(viol.op))
                        }
                    }
                });
                let mut l = local.into_inner();
                match res {
                    Ok(()) => {}
                    Err(TestError::Fail(_, minimal)) => {
                        l.frozen = true;
                        let r = f(&minimal, &mut l);
                        if let Err(v) = l.outcome(prop, r) {
                            l.viols.push(v);
                        }
                    }
                    Err(TestError::Abort(why)) => {
                        l.labels.insert("proptest_abort", 1);
                        eprintln!("proptest abort in {}: {}", name, why);
                    }
                }
                l
            })
            .collect();
        self.sections.push(merge(name, false, locals, t.elapsed().as_secs_f64()));
    }

    /// a list of fixed cases (corpus, hand-picked specials)
    pub fn fixed<T: Sync, F>(&mut self, name: &str, items: &[T], f: F)
    where
        F: Fn(&T, &mut Local) -> Result<(), Viol> + Sync,
    {
        self.lattice(name, items.len() as u64, |i, l| f(&items[i as usize], l));
    }

    pub fn total_viols(&self) -> usize {
        self.sections.iter().map(|s| s.viols.len()).sum()
    }

    /// Write replay files + evidence, print VIOLATION / KNOWN-FINDING lines, return exit code.
    pub fn finish(self) -> i32 {
        let cfg = self.cfg;
        let wall = self.t0.elapsed().as_secs_f64();
        let mut nviol = 0;
        let mut seen: HashSet<String> = HashSet::new();
        let _ = std::fs::create_dir_all(format!("{}/replays", verif_dir()));
        for s in &self.sections {
            for v in &s.viols {
                let key = format!("{}|{:x?}", v.op, v.args);
                if !seen.insert(key.clone()) {
                    continue;
                }
                nviol += 1;
                let path = format!("{}/replays/{}-{:016x}.json", verif_dir(), cfg.prop, hash_str(&key));
                let mut j = v.to_json(&cfg);
                j["section"] = json!(s.name);
                let _ = std::fs::write(&path, serde_json::to_string_pretty(&j).unwrap());
                crate::outln!("VIOLATION property={} replay={}", cfg.prop, path);
                crate::outln!("  # {} args={:x?} want={} got={} ({})", v.op, v.args, v.want, v.got, v.kind);
            }
        }
        // known findings
        let mut known_total: BTreeMap<String, u64> = BTreeMap::new();
        for s in &self.sections {
            for (k, v) in &s.known {
                *known_total.entry(k.clone()).or_insert(0) += v;
            }
        }
        for f in crate::findings::open_for(cfg.prop) {
            let hits = known_total.get(f.id).copied().unwrap_or(0);
            crate::outln!("KNOWN-FINDING: property={} {} {} ({} hits in this run)", cfg.prop, f.id, f.what, hits);
        }
        let evals: u64 = self.sections.iter().map(|s| s.evals).sum();
        let distinct: u64 = self.sections.iter().map(|s| s.distinct).sum();
        let mut samples: Vec<Value> = vec![];
        for s in &self.sections {
            for x in s.samples.iter().take(3) {
                samples.push(json!({"section": s.name, "case": x}));
            }
        }
        if samples.is_empty() {
            samples.push(json!("no samples recorded"));
        }
        let all_exh = self.complete || (!self.sections.is_empty() && self.sections.iter().filter(|s| !s.name.starts_with("libFuzzer")).all(|s| s.exhaustive));
        let sections: Vec<Value> = self
            .sections
            .iter()
            .map(|s| {
                json!({"name": s.name, "exhaustive": s.exhaustive, "evaluations": s.evals, "nontrivial": s.nontrivial,
                       "distinct_nontrivial": s.distinct, "labels": s.labels, "known_findings_hit": s.known,
                       "violations": s.viols.len(), "wall_s": (s.wall_s * 1000.0).round() / 1000.0})
            })
            .collect();
        let mut coverage = json!({
            "evaluations": evals,
            "distinct_nontrivial": distinct,
            "rule": self.rule,
            "samples": samples,
            "exhaustive": all_exh,
            "sections": sections,
            "known_findings_hit": known_total,
            "inconclusive": self.inconclusive,
        });
        for (k, v) in &self.extra {
            coverage[k] = v.clone();
        }
        let ev = json!({
            "property_id": cfg.prop,
            "tier": cfg.tier.name(),
            "seed": cfg.seed,
            "level": "exploration",
            "coverage": coverage,
            "assumptions": self.assumptions,
            "wall_s": (wall * 1000.0).round() / 1000.0,
            "violations": nviol,
        });
        let _ = std::fs::create_dir_all(format!("{}/evidence", verif_dir()));
        std::fs::write(format!("{}/evidence/{}.json", verif_dir(), cfg.prop), serde_json::to_string_pretty(&ev).unwrap()).expect("write evidence");
        crate::outln!(
            "{} {} seed={} evaluations={} distinct_nontrivial={} violations={} wall={:.1}s",
            cfg.prop,
            cfg.tier.name(),
            cfg.seed,
            evals,
            distinct,
            nviol,
            wall
        );
        for s in &self.sections {
            crate::outln!("  [{}] evals={} nontrivial={} distinct={} known={:?} viols={} {:.1}s", s.name, s.evals, s.nontrivial, s.distinct, s.known, s.viols.len(), s.wall_s);
        }
        if nviol > 0 {
            1
        } else if !self.inconclusive.is_empty() {
            for i in &self.inconclusive {
                crate::outln!("INCONCLUSIVE: {}", i);
            }
            2
        } else {
            0
        }
    }
}
