//! Thorough-tier stage: a libFuzzer campaign over the property's operation table (DESIGN.md 4.4).
//! `check` builds engine/fuzz (cargo +nightly fuzz build) and passes the binary in VCHECK_FUZZ_BIN;
//! without it the stage is skipped and says so in the evidence.  The campaign is J independent
//! libFuzzer processes with fixed `-runs` and seeds derived from VERIF_SEED, sharing one corpus
//! directory.  The target never crashes on a violation: it writes the case (already reduced) and
//! goes on; this stage turns those files into ordinary violations of the report.  Anything else that
//! stops a process (libFuzzer timeout / OOM, a harness error, the watchdog) is inconclusive, exit 2.
use crate::core::*;
use crate::fuzzops;
use serde_json::{json, Value};
use std::collections::BTreeMap;
use std::process::{Command, Stdio};
use std::time::{Duration, Instant};

fn max_len(prop: &str) -> usize {
    match prop {
        "C04" | "C12" | "C17" | "C14" => 448,
        "C18" => 256,
        "C19" => 80,
        _ => 64,
    }
}

fn kind_static(k: &str) -> &'static str {
    match k {
        "panic" => "panic",
        "hang" => "hang",
        _ => "wrong",
    }
}

pub fn run(rep: &mut Report) {
    let prop = rep.cfg.prop;
    if !fuzzops::table().iter().any(|e| e.prop == prop) {
        rep.extra.insert("fuzz_stage".into(), json!("not applicable: the property has no entry in the fuzz table (C16 needs the two-profile worker)"));
        return;
    }
    let bin = match std::env::var("VCHECK_FUZZ_BIN") {
        Ok(b) if std::path::Path::new(&b).exists() => b,
        _ => {
            rep.extra.insert("fuzz_stage".into(), json!("skipped: no libFuzzer binary (VCHECK_FUZZ_BIN unset; the nightly fuzz build is optional)"));
            return;
        }
    };
    let t = Instant::now();
    let jobs: u64 = std::env::var("VCHECK_FUZZ_JOBS").ok().and_then(|v| v.parse().ok()).unwrap_or_else(|| std::thread::available_parallelism().map(|n| n.get() as u64).unwrap_or(4).min(16));
    // fixed work per job; histories and polynomials cost ~50x a single operation (exact model after every step)
    let heavy = matches!(prop, "C04" | "C12" | "C17" | "C18");
    let default_runs = if heavy { 300_000 } else { 1_500_000 };
    let runs: u64 = std::env::var("VCHECK_FUZZ_RUNS").ok().and_then(|v| v.parse().ok()).map(|r: u64| if heavy { (r / 5).max(1000) } else { r }).unwrap_or(default_runs);
    let budget_s: u64 = std::env::var("VCHECK_FUZZ_WATCHDOG_S").ok().and_then(|v| v.parse().ok()).unwrap_or(3600);
    let work = format!("{}/engine/fuzz/work/{}", verif_dir(), prop);
    let _ = std::fs::remove_dir_all(&work);
    let (corpus, out) = (format!("{}/corpus", work), format!("{}/out", work));
    if std::fs::create_dir_all(&corpus).is_err() || std::fs::create_dir_all(&out).is_err() {
        rep.inconclusive.push(format!("fuzz stage: cannot create {}", work));
        return;
    }
    let seeds = fuzzops::seeds(prop);
    for (i, s) in seeds.iter().enumerate() {
        let _ = std::fs::write(format!("{}/seed-{:05}", corpus, i), s);
    }
    let mut kids = vec![];
    for j in 0..jobs {
        let log = match std::fs::File::create(format!("{}/log-{}.txt", out, j)) {
            Ok(f) => f,
            Err(e) => {
                rep.inconclusive.push(format!("fuzz stage: {}", e));
                return;
            }
        };
        let seed = (rep.cfg.seed.wrapping_mul(64).wrapping_add(j + 1) & 0x7fff_ffff).max(1);
        let child = Command::new(&bin)
            .arg(format!("-runs={}", runs))
            .arg(format!("-seed={}", seed))
            .arg("-len_control=0")
            .arg(format!("-max_len={}", max_len(prop)))
            .arg("-reduce_inputs=0")
            .arg("-print_final_stats=1")
            .arg("-timeout=120")
            .arg("-rss_limit_mb=4096")
            .arg(&corpus)
            .env("VCHECK_FUZZ_PROP", prop)
            .env("VCHECK_FUZZ_OUT", &out)
            .env("VCHECK_VERIF_DIR", verif_dir())
            .current_dir(&out)
            .stdin(Stdio::null())
            .stdout(Stdio::null())
            .stderr(Stdio::from(log))
            .spawn();
        match child {
            Ok(c) => kids.push((j, c)),
            Err(e) => {
                rep.inconclusive.push(format!("fuzz stage: cannot start {}: {}", bin, e));
                break;
            }
        }
    }
    // wait, under a watchdog
    let mut exit_codes: BTreeMap<u64, i32> = BTreeMap::new();
    let deadline = Instant::now() + Duration::from_secs(budget_s);
    while !kids.is_empty() {
        let mut still = vec![];
        for (j, mut c) in kids {
            match c.try_wait() {
                Ok(Some(st)) => {
                    exit_codes.insert(j, st.code().unwrap_or(-1));
                }
                Ok(None) => still.push((j, c)),
                Err(_) => {
                    exit_codes.insert(j, -2);
                }
            }
        }
        kids = still;
        if Instant::now() > deadline {
            for (j, c) in kids.iter_mut() {
                let _ = c.kill();
                let _ = c.wait();
                exit_codes.insert(*j, -9);
            }
            rep.inconclusive.push(format!("fuzz stage: watchdog ({} s) stopped the campaign", budget_s));
            break;
        }
        std::thread::sleep(Duration::from_millis(200));
    }
    // collect
    let (mut execs, mut known, mut cov, mut ft) = (0u64, BTreeMap::<String, u64>::new(), 0u64, 0u64);
    let (mut entries, mut entries_hit, mut crate_counters) = (0u64, 0u64, 0u64);
    let mut viols: Vec<Viol> = vec![];
    let mut nviol_total = 0u64;
    let mut saw_counters = false;
    if let Ok(rd) = std::fs::read_dir(&out) {
        let mut names: Vec<String> = rd.filter_map(|e| e.ok()).map(|e| e.file_name().to_string_lossy().to_string()).collect();
        names.sort();
        for name in names {
            let path = format!("{}/{}", out, name);
            if name.starts_with("stats-") {
                if let Ok(v) = std::fs::read_to_string(&path).map_err(|_| ()).and_then(|t| serde_json::from_str::<Value>(&t).map_err(|_| ())) {
                    execs += v["executions"].as_u64().unwrap_or(0);
                    nviol_total += v["violations"].as_u64().unwrap_or(0);
                    entries = entries.max(v["table_entries"].as_u64().unwrap_or(0));
                    entries_hit = entries_hit.max(v["table_entries_executed"].as_u64().unwrap_or(0));
                    crate_counters = crate_counters.max(v["counters_crate_under_test"].as_u64().unwrap_or(0));
                    if let Some(k) = v["known"].as_object() {
                        for (id, n) in k {
                            *known.entry(id.clone()).or_insert(0) += n.as_u64().unwrap_or(0);
                        }
                    }
                }
            } else if name.starts_with("viol-") {
                if let Ok(v) = std::fs::read_to_string(&path).map_err(|_| ()).and_then(|t| serde_json::from_str::<Value>(&t).map_err(|_| ())) {
                    let args: Vec<u64> = v["args"].as_array().map(|a| a.iter().map(|x| u64::from_str_radix(x.as_str().unwrap_or("0").trim_start_matches("0x"), 16).unwrap_or(0)).collect()).unwrap_or_default();
                    let viol = Viol { op: v["op"].as_str().unwrap_or("").to_string(), args, want: v["want"].as_str().unwrap_or("").to_string(), got: v["got"].as_str().unwrap_or("").to_string(), kind: kind_static(v["kind"].as_str().unwrap_or("")) };
                    if viols.len() < 8 {
                        viols.push(viol);
                    }
                }
            } else if name.starts_with("log-") {
                if let Ok(text) = std::fs::read_to_string(&path) {
                    saw_counters |= text.contains("inline 8-bit counters");
                    for line in text.lines().rev() {
                        if line.starts_with('#') && line.contains("cov: ") {
                            let num = |key: &str| line.split(key).nth(1).and_then(|r| r.split_whitespace().next()).and_then(|x| x.parse::<u64>().ok()).unwrap_or(0);
                            cov = cov.max(num("cov: "));
                            ft = ft.max(num("ft: "));
                            break;
                        }
                    }
                }
            }
        }
    }
    for (j, code) in &exit_codes {
        if *code != 0 {
            let tail = std::fs::read_to_string(format!("{}/log-{}.txt", out, j)).map(|t| t.lines().rev().take(6).collect::<Vec<_>>().join(" | ")).unwrap_or_default();
            rep.inconclusive.push(format!("fuzz stage: job {} ended with status {} (libFuzzer timeout/OOM/crash or harness error, not a violation of the property): {}", j, code, tail.chars().take(400).collect::<String>()));
        }
    }
    if !saw_counters && !exit_codes.is_empty() {
        rep.inconclusive.push("fuzz stage: no libFuzzer log reports inline 8-bit counters — coverage feedback was not active".into());
    }
    // corpus = inputs that reached new coverage inside the crate under test
    let mut units = 0u64;
    let mut samples: Vec<Value> = vec![];
    if let Ok(rd) = std::fs::read_dir(&corpus) {
        for e in rd.filter_map(|e| e.ok()) {
            let name = e.file_name().to_string_lossy().to_string();
            if name.starts_with("seed-") {
                continue;
            }
            units += 1;
            if samples.len() < 3 && units % 97 == 1 {
                if let Ok(data) = std::fs::read(e.path()) {
                    if let Some((_, op, args)) = fuzzops::decode(Some(prop), &data) {
                        samples.push(json!({"op": op, "args": args.iter().take(12).map(|a| format!("{:#x}", a)).collect::<Vec<_>>()}));
                    }
                }
            }
        }
    }
    let mut labels: BTreeMap<String, u64> = BTreeMap::new();
    labels.insert("libfuzzer_jobs".into(), jobs);
    labels.insert("runs_per_job".into(), runs);
    labels.insert("edges_covered_max_over_jobs".into(), cov);
    labels.insert("features_max_over_jobs".into(), ft);
    labels.insert("corpus_units_with_new_crate_coverage".into(), units);
    labels.insert("seed_inputs".into(), seeds.len() as u64);
    labels.insert("op_table_entries".into(), entries);
    labels.insert("op_table_entries_executed".into(), entries_hit);
    labels.insert("counters_attributed_to_crate_under_test".into(), crate_counters);
    if nviol_total > viols.len() as u64 {
        labels.insert("violating_executions_total".into(), nviol_total);
    }
    rep.sections.push(SectionOut {
        name: format!("libFuzzer coverage-guided campaign ({} jobs x {} runs, shared corpus, exact oracle inside the target; non-trivial = input kept for new coverage in the crate under test)", jobs, runs),
        exhaustive: false,
        evals: execs,
        nontrivial: units,
        distinct: units,
        labels,
        samples,
        viols,
        known,
        wall_s: t.elapsed().as_secs_f64(),
    });
    // the corpus is scratch; violation files were absorbed above
    let _ = std::fs::remove_dir_all(&work);
}
