//! Shared proptest strategies (DESIGN.md section 3).  Everything random comes from proptest so that
//! shrinking and seeding work; the structured generators are pure functions of drawn integers.
#![allow(dead_code)]
use crate::fastref as fr;
use crate::refmodel::{decode, round_posit, Dy};
use proptest::prelude::*;

#[inline]
pub fn mask(n: u32) -> u64 {
    if n >= 64 {
        u64::MAX
    } else {
        (1u64 << n) - 1
    }
}
#[inline]
pub fn nar(n: u32) -> u64 {
    1u64 << (n - 1)
}

/// build an n-bit posit from sign, power-of-two scale and a left-aligned 64-bit fraction (rounded
/// by the fast reference encoder, so the result is always a legal pattern)
pub fn make(n: u32, es: u32, neg: bool, scale: i32, frac: u64) -> u64 {
    fr::encode(n, es, fr::Fx { neg, sig: (1u128 << 127) | ((frac as u128) << 63), exp: scale - 127, sticky: false })
}
/// floor(log2 |x|) of a real non-zero pattern
pub fn scale_of(n: u32, es: u32, b: u64) -> Option<i32> {
    match fr::decode(n, es, b) {
        Some(x) if x.sig != 0 => {
            let x = x.norm();
            Some(x.exp + 127)
        }
        _ => None,
    }
}
pub fn max_scale(n: u32, es: u32) -> i32 {
    ((n as i32) - 2) << es
}
/// left-aligned fraction of a pattern (0 for specials)
pub fn frac_of(n: u32, es: u32, b: u64) -> u64 {
    match fr::decode(n, es, b) {
        Some(x) if x.sig != 0 => {
            let x = x.norm();
            ((x.sig << 1) >> 64) as u64
        }
        _ => 0,
    }
}

pub fn specials(n: u32) -> Vec<u64> {
    let m = mask(n);
    let mut v = vec![0, nar(n), 1, m >> 1, m, nar(n) + 1, 1u64 << (n - 2), 3u64 << (n - 2) & m, 2, (m >> 1) - 1];
    if n >= 4 {
        let one = 1u64 << (n - 2);
        v.extend_from_slice(&[one + 1, one - 1, (one + 1).wrapping_neg() & m, (one - 1).wrapping_neg() & m, one | (one >> 1), one >> 1, (one >> 1).wrapping_neg() & m, 3, m - 1, m - 2]);
    }
    v.iter().map(|x| x & m).collect()
}

/// regime-stratified pattern: run length, polarity, fraction kind, sign
fn regime_pattern(n: u32, run: u32, first: bool, kind: u8, raw: u64, neg: bool) -> u64 {
    let m = mask(n);
    let run = run.clamp(1, n - 1);
    let mut p: u64 = 0;
    let mut used = 1;
    for _ in 0..run {
        if used < n {
            p = (p << 1) | first as u64;
            used += 1;
        }
    }
    if used < n {
        p = (p << 1) | (!first) as u64;
        used += 1;
    }
    let rest = n - used;
    if rest > 0 {
        let fm = (1u64 << rest) - 1;
        let f = match kind % 5 {
            0 => 0,
            1 => fm,
            2 => 1u64 << (raw % rest as u64),
            3 => fm ^ (1u64 << (raw % rest as u64)),
            _ => raw & fm,
        };
        p = (p << rest) | f;
    }
    if p == 0 {
        p = 1;
    }
    (if neg { p.wrapping_neg() } else { p }) & m
}

/// any n-bit pattern, with mass on the thin regions
pub fn bits(n: u32) -> BoxedStrategy<u64> {
    let m = mask(n);
    prop_oneof![
        30 => any::<u64>().prop_map(move |x| x & m),
        10 => proptest::sample::select(specials(n)),
        35 => (1..n.max(2), any::<bool>(), 0u8..5, any::<u64>(), any::<bool>()).prop_map(move |(r, f, k, raw, s)| regime_pattern(n, r, f, k, raw, s)),
        10 => (any::<u64>(), any::<u64>(), any::<u64>()).prop_map(move |(a, b, c)| (a & b & c) & m),
        10 => (any::<u64>(), any::<u64>(), any::<u64>()).prop_map(move |(a, b, c)| (a | b | c) & m),
        5 => (any::<u64>(), 0u32..64).prop_map(move |(a, s)| (a >> (s % n.max(1))) & m),
    ]
    .boxed()
}

/// real (non-NaR) pattern
pub fn real_bits(n: u32) -> BoxedStrategy<u64> {
    let nr = nar(n);
    bits(n).prop_map(move |b| if b == nr { nr + 1 } else { b }).boxed()
}

const SCALE_OFFSETS: [i32; 22] = [0, 1, 2, 3, 7, 8, 15, 16, 28, 29, 30, 31, 32, 33, 59, 60, 61, 62, 63, 64, 65, 120];

/// second operand derived from the first by a drawn relation
fn relate(n: u32, es: u32, a: u64, b: u64, rel: u8, k: u64, raw: u64) -> u64 {
    let m = mask(n);
    match rel % 12 {
        0..=3 => b,
        4 => a,
        5 => a.wrapping_neg() & m,
        6 => a.wrapping_add(1 + k % 3) & m,
        7 => a.wrapping_sub(1 + k % 3) & m,
        8 => a.wrapping_neg().wrapping_add(k % 5).wrapping_sub(2) & m,
        9 | 10 => {
            // same scale or a drawn scale offset, b's fraction
            match scale_of(n, es, a) {
                Some(s) => {
                    let d = if rel % 12 == 9 { 0 } else { SCALE_OFFSETS[(k % 22) as usize] };
                    let d = if raw & 1 == 0 { d } else { -d };
                    let ms = max_scale(n, es);
                    let s2 = (s - d).clamp(-ms, ms);
                    make(n, es, raw & 2 != 0, s2, frac_of(n, es, b) | (raw & !0xffff_ffff))
                }
                None => b,
            }
        }
        _ => {
            // reciprocal-ish: negated scale
            match scale_of(n, es, a) {
                Some(s) => make(n, es, raw & 2 != 0, -s + (k % 3) as i32 - 1, frac_of(n, es, b)),
                None => b,
            }
        }
    }
}

pub fn pair(n: u32, es: u32) -> BoxedStrategy<(u64, u64)> {
    (bits(n), bits(n), 0u8..12, any::<u64>(), any::<u64>()).prop_map(move |(a, b, rel, k, raw)| (a, relate(n, es, a, b, rel, k, raw))).boxed()
}

/// (a, b, c) for fused operations: c related to the product
pub fn triple(n: u32, es: u32) -> BoxedStrategy<(u64, u64, u64)> {
    (pair(n, es), bits(n), 0u8..10, any::<u64>()).prop_map(move |((a, b), c, rel, k)| {
        let m = mask(n);
        let c2 = match rel {
            0..=2 => c,
            3..=5 => {
                // c ~ -round(a*b) +- k ulp : deep cancellation
                match (fr::decode(n, es, a), fr::decode(n, es, b)) {
                    (Some(x), Some(y)) => {
                        let p = fr::encode(n, es, fr::mul(x, y));
                        let d = (k % 9) as i64 - 4;
                        (p.wrapping_neg() as i64).wrapping_add(d) as u64 & m
                    }
                    _ => c,
                }
            }
            6 => {
                // |c| << |ab|
                match (scale_of(n, es, a), scale_of(n, es, b)) {
                    (Some(s), Some(t)) => make(n, es, k & 1 != 0, s + t - SCALE_OFFSETS[(k >> 8) as usize % 22], frac_of(n, es, c)),
                    _ => c,
                }
            }
            7 => match (scale_of(n, es, a), scale_of(n, es, b)) {
                (Some(s), Some(t)) => make(n, es, k & 1 != 0, s + t + SCALE_OFFSETS[(k >> 8) as usize % 22], frac_of(n, es, c)),
                _ => c,
            },
            8 => match (scale_of(n, es, a), scale_of(n, es, b)) {
                (Some(s), Some(t)) => make(n, es, k & 1 != 0, s + t + (k >> 4) as i32 % 3 - 1, frac_of(n, es, c)),
                _ => c,
            },
            _ => a,
        };
        (a, b, c2)
    })
    .boxed()
}

/// stratified scale for a result: near saturation, exponent-truncating regimes, near zero, uniform
fn strat_scale(n: u32, es: u32, sel: u8, raw: u64) -> i32 {
    let ms = max_scale(n, es);
    let w = 1 << es;
    let s = match sel % 8 {
        0 | 1 => ms - (raw % (3 * w as u64 + 2)) as i32,        // regimes n-2, n-3, n-4
        2 | 3 => -ms + (raw % (3 * w as u64 + 2)) as i32 - 1,
        4 => ms + (raw % 5) as i32 - 2,                           // straddling saturation
        5 => -ms + (raw % 5) as i32 - 2,
        6 => (raw % 9) as i32 - 4,
        _ => (raw % (2 * ms as u64 + 1)) as i32 - ms,
    };
    s
}

/// result-directed pair for op in {0:+,1:-,2:*,3:/}
pub fn result_pair(n: u32, es: u32) -> BoxedStrategy<(u8, u64, u64)> {
    (0u8..4, 0u8..8, any::<u64>(), real_bits(n), bits(n), any::<u64>()).prop_map(move |(op, sel, raw, a, fb, k)| {
        let ms = max_scale(n, es);
        let s_res = strat_scale(n, es, sel, raw);
        let a = if a == 0 { 1u64 << (n - 2) } else { a };
        let sa = scale_of(n, es, a).unwrap_or(0);
        let fracb = frac_of(n, es, fb) | if k & 4 != 0 { 0 } else { k << 40 };
        let negb = k & 1 != 0;
        match op {
            2 => {
                let sb = (s_res - sa).clamp(-ms - 1, ms + 1);
                (op, a, make(n, es, negb, sb, fracb))
            }
            3 => {
                let sb = (sa - s_res).clamp(-ms - 1, ms + 1);
                (op, a, make(n, es, negb, sb, fracb))
            }
            _ => {
                // + -: put a at the result scale, b at a drawn gap below it (or equal scale, cancelling)
                let a2 = make(n, es, k & 2 != 0, s_res, frac_of(n, es, a));
                let gap = SCALE_OFFSETS[(k >> 8) as usize % 12];
                let b = make(n, es, negb, (s_res - gap).clamp(-ms, ms), fracb);
                (op, a2, b)
            }
        }
    })
    .boxed()
}

fn representable(n: u32, es: u32, x: &Dy) -> Option<u64> {
    if x.is_zero() {
        return Some(0);
    }
    let r = round_posit(n, es, x);
    match decode(n, es, r) {
        Some(d) if d.cmp(x) == core::cmp::Ordering::Equal => Some(r),
        _ => None,
    }
}

/// tie-directed pair: operands whose exact result is (or is 1 ulp of an operand away from) a
/// rounding threshold `v` of the n-bit format; op in {0:+,1:-,2:*,3:/}.  Falls back to `fallback`.
pub fn tie_pair(n: u32, es: u32) -> BoxedStrategy<(u8, u64, u64)> {
    tie_pair_ops(n, es, 0, 4)
}
/// same, operator drawn from op_lo..op_hi
pub fn tie_pair_ops(n: u32, es: u32, op_lo: u8, op_hi: u8) -> BoxedStrategy<(u8, u64, u64)> {
    (op_lo..op_hi, bits(n + 1), any::<u64>(), 0u8..3, pair(n, es)).prop_map(move |(op, vb, raw, delta, fallback)| {
        let m = mask(n);
        let vb = (vb | 1) & mask(n + 1);
        let v = match decode(n + 1, es, vb) {
            Some(v) if !v.is_zero() => v,
            _ => return (op, fallback.0, fallback.1),
        };
        let sv = scale_of(n + 1, es, vb).unwrap_or(0);
        let ms = max_scale(n, es);
        let mut out: Option<(u64, u64)> = None;
        match op {
            0 | 1 => {
                // a near v (the n-bit neighbour below or a drawn value at a nearby scale), b = v - a (or a - v)
                let u = {
                    let ub = vb >> 1; // n-bit posit just below |v|
                    if v.neg { ub.wrapping_neg() & m } else { ub }
                };
                let a = if raw & 3 == 0 {
                    make(n, es, raw & 4 != 0, (sv - (raw >> 8) as i32 % 4).clamp(-ms, ms), raw & !0xfff)
                } else {
                    u
                };
                if let Some(da) = decode(n, es, a) {
                    let b = if op == 0 { v.sub(&da) } else { da.sub(&v) };
                    if let Some(rb) = representable(n, es, &b) {
                        out = Some((a, rb));
                    }
                }
            }
            _ => {
                // a = 2^j (sign drawn), b = v * 2^-j  (mul) ; a = v * 2^j, b = 2^j (div)
                let target = (raw >> 8) as i32 % 5 - 2; // bring the other operand near scale 0
                let j = sv - target;
                if j.abs() <= ms {
                    let pj = Dy::new(raw & 4 != 0, 1, j);
                    let other = {
                        let mut o = v.mul_pow2(-j);
                        if raw & 4 != 0 {
                            o = o.neg();
                        }
                        o
                    };
                    if let (Some(rp), Some(ro)) = (representable(n, es, &pj), representable(n, es, &other)) {
                        out = Some(if op == 2 {
                            if raw & 16 != 0 { (rp, ro) } else { (ro, rp) }
                        } else {
                            // other / 2^-j = v : divisor 2^-j
                            let pj2 = Dy::new(raw & 4 != 0, 1, -j);
                            match representable(n, es, &pj2) {
                                Some(rd) => (ro, rd),
                                None => (fallback.0, fallback.1),
                            }
                        });
                    }
                }
            }
        }
        let (a, b) = out.unwrap_or(fallback);
        // delta: nudge b by one ulp to land just above / just below the threshold
        // (by 2^j encodings, j drawn: the sticky information then sits at a drawn depth)
        let j = ((raw >> 48) % (n as u64).saturating_sub(3).max(1)) as u32;
        let step = if raw >> 47 & 1 == 0 { 1u64 } else { 1u64 << j };
        let b = match delta {
            1 => b.wrapping_add(step) & m,
            2 => b.wrapping_sub(step) & m,
            _ => b,
        };
        (op, a, b)
    })
    .boxed()
}

/// tie-directed triple for fused ops: c = v - a*b with short a, b
pub fn tie_triple(n: u32, es: u32) -> BoxedStrategy<(u64, u64, u64)> {
    (bits(n + 1), any::<u64>(), triple(n, es)).prop_map(move |(vb, raw, fb)| {
        let vb = (vb | 1) & mask(n + 1);
        let v = match decode(n + 1, es, vb) {
            Some(v) if !v.is_zero() => v,
            _ => return fb,
        };
        let sv = scale_of(n + 1, es, vb).unwrap_or(0);
        let ms = max_scale(n, es);
        // short significands so that a*b is short
        let sa = ((raw >> 8) as i32 % (2 * ms + 1)) - ms;
        let sb = (sv - sa - (raw >> 20) as i32 % 4).clamp(-ms, ms);
        let a = make(n, es, raw & 1 != 0, sa, (raw >> 32) << 58);
        let b = make(n, es, raw & 2 != 0, sb, (raw >> 40) << 59);
        if let (Some(da), Some(db)) = (decode(n, es, a), decode(n, es, b)) {
            let c = v.sub(&da.mul(&db));
            if let Some(rc) = representable(n, es, &c) {
                return (a, b, rc);
            }
        }
        fb
    })
    .boxed()
}

/// near-tie triple for fused ops: c dominant and close to a threshold v, a*b ~ v - c but not exactly,
/// so that a*b + c = v + r with a residual r far below the result's ulp (sticky-bit territory).
pub fn near_tie_triple(n: u32, es: u32) -> BoxedStrategy<(u64, u64, u64)> {
    (bits(n + 1), any::<u64>(), bits(n), triple(n, es)).prop_map(move |(vb, raw, abits, fb)| {
        let vb = (vb | 1) & mask(n + 1);
        let v = match decode(n + 1, es, vb) {
            Some(v) if !v.is_zero() => v,
            _ => return fb,
        };
        let sv = scale_of(n + 1, es, vb).unwrap_or(0);
        let ms = max_scale(n, es);
        // c: same sign as v, scale sv - d, structured fraction
        let d = (raw % 3) as i32;
        let frac = match (raw >> 4) % 4 {
            0 => 0,
            1 => !0u64,
            2 => raw.rotate_left(17),
            _ => frac_of(n + 1, es, vb).wrapping_sub((raw >> 8) % 8 << 40),
        };
        let c = make(n, es, v.neg, (sv - d).clamp(-ms, ms), frac);
        let dc = match decode(n, es, c) {
            Some(x) => x,
            None => return fb,
        };
        let ptop = v.sub(&dc);
        if ptop.is_zero() {
            return fb;
        }
        let a = if abits == 0 || abits == nar(n) { 1u64 << (n - 2) } else { abits };
        let da = decode(n, es, a).unwrap();
        let b = round_posit(n, es, &crate::refmodel::Quot(ptop, da));
        (a, b, c)
    })
    .boxed()
}

fn inv_mod_pow2(a: u64, k: u32) -> u64 {
    // a odd; Newton iteration doubles the number of correct low bits
    let mut x = a;
    for _ in 0..6 {
        x = x.wrapping_mul(2u64.wrapping_sub(a.wrapping_mul(x)));
    }
    if k >= 64 { x } else { x & ((1u64 << k) - 1) }
}

/// fraction bits available at power-of-two scale s in an n-bit posit
pub fn frac_bits_at(n: u32, es: u32, s: i32) -> i32 {
    let k = s >> es;
    let rl = if k >= 0 { k + 2 } else { -k + 1 };
    (n as i32 - 1 - rl - es as i32).max(0)
}

/// "tie plus one distant bit": a*b has a single set bit far below an otherwise exactly cancelling
/// part, so that a*b + c = v +- 2^t with v a rounding threshold of the result and t a drawn depth
/// below it (the only sticky information is one bit at that depth).  Built with a modular inverse:
/// A*B = 1 (mod 2^k).
pub fn sparse_tie_triple(n: u32, es: u32) -> BoxedStrategy<(u64, u64, u64)> {
    let table = deep_pairs(n, es);
    (any::<u64>(), any::<u64>(), any::<u64>(), triple(n, es)).prop_map(move |(r1, r2, r3, fb)| {
        let ms = max_scale(n, es);
        // result binade S (moderate scales so that operands have fraction bits), fraction bits f
        let span = (ms / 2).max(2);
        let s_res = (r1 % (2 * span as u64 + 1)) as i32 - span;
        let f = frac_bits_at(n, es, s_res);
        if f < 2 || frac_bits_at(n, es, s_res - 1) < f {
            return fb;
        }
        let fa_max = (n as i32 - 3 - es as i32).max(2) as u32; // widest significand available
        let (a_sig, b_sig, k, wa) = if r1 >> 60 < 6 && !table.is_empty() {
            // deep pair from the precomputed table: A*B = 1 + M*2^k with k beyond the width of B
            let (a, b, k) = table[((r2 >> 8) % table.len() as u64) as usize];
            (a, b, k, 64 - a.leading_zeros())
        } else {
            let wa = 2 + (r1 >> 8) as u32 % (fa_max - 1);
            let wb = 2 + (r1 >> 16) as u32 % (fa_max - 1);
            let a_sig = ((r2 & ((1u64 << wa) - 1)) | 1) | (1u64 << (wa - 1));
            let k = (2 + (r1 >> 24) as u32 % (wb - 1).max(1)).min(wb);
            let t = if wb > k { (r3 >> 8) & ((1u64 << (wb - k)) - 1) } else { 0 };
            (a_sig, inv_mod_pow2(a_sig, k) | (t << k), k, wa)
        };
        if b_sig == 0 {
            return fb;
        }
        let prod = (a_sig as u128) * (b_sig as u128); // = 1 + M * 2^k
        let m_part = (prod - 1) >> k;
        if m_part == 0 {
            return fb;
        }
        let j = ((r1 >> 32) % 3) as i32;
        // h = half ulp of the result binade = 2^(s_res - f - 1);  e = log2(h) - k + j
        let log_h = s_res - f - 1;
        let e = log_h - k as i32 + j;
        // p_top = M * 2^(k+e) = M * h * 2^j ; v = 2^S + (2q+1) h with (2q+1) h < p_top
        let mh = m_part << j; // p_top in units of h
        if mh < 2 || mh >= (1u128 << (f + 1)) {
            return fb;
        }
        let q = ((r3 >> 20) as u128) % (mh / 2).max(1);
        let odd = 2 * q + 1;
        if odd >= mh || odd >= (1u128 << (f + 1)) {
            return fb;
        }
        let v = Dy::new(false, 1, s_res).add(&Dy::from_u128(false, odd, log_h));
        let ptop = Dy::from_u128(false, mh, log_h);
        let below = r3 & 1 != 0; // product negative: result v - 2^e (c = v + p_top)
        let c = if below { v.add(&ptop) } else { v.sub(&ptop) };
        // split the product's exponent between the factors by construction: every scale of `a` at which
        // both factors still have the fraction bits their significands need (a deep lone bit forces both
        // factors well below 1; putting `a` near 1 would leave `b` without fraction bits — seeded
        // C13-r3-m3 needed 4097*2^-27 x 16773121*2^-35)
        let wb = 64 - b_sig.leading_zeros();
        let total = e + (wa as i32 - 1) + (wb as i32 - 1);
        let valid: Vec<i32> = (-ms..=ms)
            .filter(|&sa| {
                let sb = total - sa;
                sb.abs() <= ms && frac_bits_at(n, es, sa) >= wa as i32 - 1 && frac_bits_at(n, es, sb) >= wb as i32 - 1
            })
            .collect();
        if valid.is_empty() {
            return fb;
        }
        let ea = valid[((r3 >> 40) % valid.len() as u64) as usize] - (wa as i32 - 1);
        let eb = e - ea;
        let (da, db) = (Dy::new(below, a_sig, ea), Dy::new(false, b_sig, eb));
        match (representable(n, es, &da), representable(n, es, &db), representable(n, es, &c)) {
            (Some(a), Some(b), Some(c)) => {
                let m = mask(n);
                if r3 & 2 != 0 {
                    // mirror image
                    (a.wrapping_neg() & m, b, c.wrapping_neg() & m)
                } else {
                    (a, b, c)
                }
            }
            _ => fb,
        }
    })
    .boxed()
}

/// multiplication operands whose exact product is `M * 2^k + 1` in units of its last place: a short
/// leading part (often exactly a rounding threshold) plus ONE distant set bit — the product-side
/// analogue of `sparse_tie_triple`.  op code 2 (mul) is implied.
pub fn sparse_mul_pair(n: u32, es: u32) -> BoxedStrategy<(u64, u64)> {
    let table = deep_pairs(n, es);
    (any::<u64>(), any::<u64>(), pair(n, es)).prop_map(move |(r1, r2, fb)| {
        let fa_max = (n as i32 - 3 - es as i32).max(2) as u32;
        let (a_sig, b_sig) = if r1 >> 60 < 8 && !table.is_empty() {
            let (a, b, _) = table[((r2 >> 8) % table.len() as u64) as usize];
            (a, b)
        } else {
            let wa = 2 + (r1 >> 8) as u32 % (fa_max - 1);
            let wb = 2 + (r1 >> 16) as u32 % (fa_max - 1);
            let a_sig = ((r2 & ((1u64 << wa) - 1)) | 1) | (1u64 << (wa - 1));
            let k = (2 + (r1 >> 24) as u32 % (wb - 1).max(1)).min(wb);
            let t = if wb > k { (r2 >> 40) & ((1u64 << (wb - k)) - 1) } else { 0 };
            (a_sig, inv_mod_pow2(a_sig, k) | (t << k))
        };
        if b_sig == 0 {
            return fb;
        }
        let ms = max_scale(n, es) / 3;
        let ea = ((r1 >> 32) % (2 * ms as u64 + 1)) as i32 - ms - 64 + a_sig.leading_zeros() as i32;
        let eb = ((r1 >> 44) % 9) as i32 - 4 - 64 + b_sig.leading_zeros() as i32;
        let (da, db) = (Dy::new(r2 & 1 != 0, a_sig, ea), Dy::new(r2 & 2 != 0, b_sig, eb));
        match (representable(n, es, &da), representable(n, es, &db)) {
            (Some(a), Some(b)) => if r2 & 4 != 0 { (a, b) } else { (b, a) },
            _ => fb,
        }
    })
    .boxed()
}

/// pairs of odd significands (A, B, k), both at most w = n-3-es bits wide, with A*B = 1 (mod 2^k)
/// for k larger than w: products whose lowest set bit is isolated deeper than either factor's width.
/// Found by a bounded scan (deterministic); cached per format.
pub fn deep_pairs(n: u32, es: u32) -> std::sync::Arc<Vec<(u64, u64, u32)>> {
    use std::collections::HashMap;
    use std::sync::{Arc, Mutex, OnceLock};
    static CACHE: OnceLock<Mutex<HashMap<(u32, u32), Arc<Vec<(u64, u64, u32)>>>>> = OnceLock::new();
    let cache = CACHE.get_or_init(|| Mutex::new(HashMap::new()));
    if let Some(v) = cache.lock().unwrap().get(&(n, es)) {
        return v.clone();
    }
    let w = (n as i32 - 3 - es as i32).max(2) as u32;
    let mut out = vec![];
    if w >= 4 && w <= 31 {
        let lim = 1u64 << w;
        let scan = (1u64 << 19).min(lim / 2);
        for k in (w + 1)..=(2 * w - 2) {
            let mut found = 0;
            // A = odd numbers from the top of the range downwards and from 3 upwards, alternating
            for i in 0..scan {
                let a = if i & 1 == 0 { 3 + i } else { lim - i };
                let a = a | 1;
                if a >= lim {
                    continue;
                }
                let b = inv_mod_pow2(a, k);
                if b < lim && b > 1 {
                    let m = ((a as u128 * b as u128) - 1) >> k;
                    if m > 0 {
                        out.push((a, b, k));
                        found += 1;
                        if found >= 64 {
                            break;
                        }
                    }
                }
            }
        }
    }
    let v = Arc::new(out);
    cache.lock().unwrap().insert((n, es), v.clone());
    v
}

// ---------------------------------------------------------------- floats and integers

/// exact f64 image of a dyadic if representable
pub fn dy_to_f64(d: &Dy) -> Option<f64> {
    d.to_f64_exact()
}

pub fn f64bits() -> BoxedStrategy<u64> {
    let spec: Vec<u64> = vec![
        0, 1 << 63, 0x7ff0 << 48, 0xfff0 << 48, 0x7ff8 << 48, 0xfff8_0000_0000_0001, 1, 0x000f_ffff_ffff_ffff, 0x0010 << 48, 0x7fef_ffff_ffff_ffff, 0x3ff0 << 48, 0xbff0 << 48,
        // crate thresholds and neighbours
        0x41b0_0000_0000_0000, 0x41af_ffff_ffff_ffff, 0x3e30_0000_0000_0000, 0x3e30_0000_0000_0001, 0x4770_0000_0000_0000, 0x476f_ffff_ffff_ffff, 0x3870_0000_0000_0000, 0x3870_0000_0000_0001,
        0x4050_0000_0000_0000, 0x404f_ffff_ffff_ffff, 0x3f90_0000_0000_0000, 0x3f90_0000_0000_0001,
    ];
    prop_oneof![
        10 => any::<u64>(),
        10 => proptest::sample::select(spec),
        30 => (-135i64..=135, 0u8..5, any::<u64>(), any::<u64>(), any::<bool>()).prop_map(|(e, k, r, r2, s)| {
            let m52 = (1u64 << 52) - 1;
            let m = match k { 0 => 0, 1 => m52, 2 => 1u64 << (r % 52), 3 => (r2 & m52) & !((1u64 << (r % 52)) - 1), _ => r & m52 };
            ((s as u64) << 63) | (((e + 1023) as u64) << 52) | m
        }),
        // threshold lattice of the three targets: exact f64 of an (n+1)-bit threshold, -1, 0, +1 f64 ulp, and +- sticky far below
        50 => (0u8..3, any::<u64>(), 0u8..6).prop_map(|(t, raw, d)| {
            let (n, es) = [(8u32, 0u32), (16, 1), (32, 2)][t as usize];
            let vb = (raw | 1) & mask(n + 1);
            // re-stratify the regime for wide formats
            let vb = if raw >> 60 < 8 { regime_pattern(n + 1, ((raw >> 40) % n as u64) as u32 + 1, raw >> 39 & 1 != 0, (raw >> 36) as u8 % 5, raw >> 8, raw >> 7 & 1 != 0) | 1 } else { vb };
            match decode(n + 1, es, vb).and_then(|d| d.to_f64_exact()) {
                Some(f) if f != 0.0 => {
                    let b = f.to_bits();
                    match d { 0 => b, 1 => b + 1, 2 => b - 1, 3 => b + (1 << (raw >> 50) % 30), 4 => b - (1 << (raw >> 50) % 30), _ => b ^ (1 << 63) }
                }
                _ => raw,
            }
        }),
    ]
    .boxed()
}

pub fn f32bits() -> BoxedStrategy<u32> {
    let spec: Vec<u32> = vec![0, 1 << 31, 0x7f80_0000, 0xff80_0000, 0x7fc0_0000, 0xffc0_0001, 1, 0x007f_ffff, 0x0080_0000, 0x7f7f_ffff, 0x3f80_0000, 0xbf80_0000,
        0x4d80_0000, 0x4d7f_ffff, 0x3180_0000, 0x3180_0001, 0x7b80_0000, 0x7b7f_ffff, 0x0380_0000, 0x0380_0001, 0x4280_0000, 0x427f_ffff, 0x3c80_0000, 0x3c80_0001];
    prop_oneof![
        10 => any::<u32>(),
        10 => proptest::sample::select(spec),
        30 => (-130i32..=128, 0u8..5, any::<u32>(), any::<u32>(), any::<bool>()).prop_map(|(e, k, r, r2, s)| {
            let m23 = (1u32 << 23) - 1;
            let m = match k { 0 => 0, 1 => m23, 2 => 1u32 << (r % 23), 3 => (r2 & m23) & !((1u32 << (r % 23)) - 1), _ => r & m23 };
            ((s as u32) << 31) | ((((e + 127).clamp(0, 254)) as u32) << 23) | m
        }),
        50 => (0u8..3, any::<u64>(), 0u8..6).prop_map(|(t, raw, d)| {
            let (n, es) = [(8u32, 0u32), (16, 1), (32, 2)][t as usize];
            let vb = regime_pattern(n + 1, ((raw >> 40) % n as u64) as u32 + 1, raw >> 39 & 1 != 0, (raw >> 36) as u8 % 5, raw >> 8, raw >> 7 & 1 != 0) | 1;
            match decode(n + 1, es, vb).and_then(|d| d.to_f64_exact()) {
                Some(f) if f != 0.0 && (f as f32).is_finite() => {
                    let b = (f as f32).to_bits();
                    match d { 0 => b, 1 => b.wrapping_add(1), 2 => b.wrapping_sub(1), 3 => b.wrapping_add(1 << (raw >> 50) % 12), 4 => b.wrapping_sub(1 << (raw >> 50) % 12), _ => b ^ (1 << 31) }
                }
                _ => raw as u32,
            }
        }),
    ]
    .boxed()
}

/// 64-bit integer patterns (interpreted as i64 or u64 by the caller)
pub fn int64() -> BoxedStrategy<u64> {
    let spec: Vec<u64> = vec![0, 1, u64::MAX, i64::MIN as u64, i64::MAX as u64, i32::MIN as i64 as u64, i32::MAX as u64, u32::MAX as u64, 48, (-48i64) as u64, 49, 2, 3,
        0xFFFB_FFFF_FFFF_FBFF, 0xFFFB_FFFF_FFFF_FC00, 0xFFFB_FFFF_FFFF_FFFF, 0xFFFC_0000_0000_0000, 9_222_809_086_901_354_495, 9_222_809_086_901_354_496, (-9_222_809_086_901_354_495i64) as u64, (-9_222_809_086_901_354_496i64) as u64,
        2_147_483_135, 2_147_483_136, 0x0800_0000, 0x0800_0001, 0x02FF_FFFF, 0x0300_0000];
    prop_oneof![
        10 => any::<u64>(),
        10 => proptest::sample::select(spec),
        10 => (-300i64..300).prop_map(|x| x as u64),
        15 => (any::<u64>(), 0u32..64).prop_map(|(r, s)| r >> s),
        15 => (0u32..64, -2i64..3, any::<bool>()).prop_map(|(s, d, n)| { let v = ((1u64 << s) as i64).wrapping_add(d); (if n { v.wrapping_neg() } else { v }) as u64 }),
        // short mantissa * 2^s, optionally with a low sticky bit: the inputs that sit on and next to rounding thresholds
        40 => (1u64..(1 << 14), 0u32..64, 0u8..4, any::<bool>()).prop_map(|(top, s, low, n)| {
            let lz = top.leading_zeros();
            let s = s.min(lz);
            let v = (top << s) | match low { 1 => 1, 2 => if s > 0 { (1u64 << s) - 1 } else { 0 }, _ => 0 };
            if n { (v as i64).wrapping_neg() as u64 } else { v }
        }),
    ]
    .boxed()
}
