//! Independent reference model: exact dyadic arithmetic + posit-standard rounding.
#![allow(dead_code)]
use std::cmp::Ordering;

pub const L: usize = 12; // 768 bits

#[derive(Clone, Copy, PartialEq, Eq, Debug)]
pub struct BigU(pub [u64; L]); // little endian limbs

impl BigU {
    pub const ZERO: BigU = BigU([0; L]);
    pub fn from_u64(x: u64) -> Self {
        let mut a = [0; L];
        a[0] = x;
        BigU(a)
    }
    pub fn from_u128(x: u128) -> Self {
        let mut a = [0; L];
        a[0] = x as u64;
        a[1] = (x >> 64) as u64;
        BigU(a)
    }
    pub fn is_zero(&self) -> bool {
        self.0.iter().all(|&x| x == 0)
    }
    pub fn bitlen(&self) -> u32 {
        for i in (0..L).rev() {
            if self.0[i] != 0 {
                return (i as u32) * 64 + (64 - self.0[i].leading_zeros());
            }
        }
        0
    }
    pub fn trailing_zeros(&self) -> u32 {
        for i in 0..L {
            if self.0[i] != 0 {
                return (i as u32) * 64 + self.0[i].trailing_zeros();
            }
        }
        (L as u32) * 64
    }
    pub fn bit(&self, i: u32) -> bool {
        let l = (i / 64) as usize;
        if l >= L {
            return false;
        }
        (self.0[l] >> (i % 64)) & 1 != 0
    }
    pub fn shl(&self, s: u32) -> Self {
        assert!(self.bitlen() + s <= (L as u32) * 64, "BigU shl overflow");
        let mut r = [0u64; L];
        let ls = (s / 64) as usize;
        let bs = s % 64;
        for i in (0..L).rev() {
            if i < ls {
                break;
            }
            let src = i - ls;
            let mut v = self.0[src] << bs;
            if bs != 0 && src > 0 {
                v |= self.0[src - 1] >> (64 - bs);
            }
            r[i] = v;
        }
        BigU(r)
    }
    /// logical shift right, dropping bits
    pub fn shr(&self, s: u32) -> Self {
        let mut r = [0u64; L];
        let ls = (s / 64) as usize;
        let bs = s % 64;
        for i in 0..L {
            let src = i + ls;
            if src >= L {
                break;
            }
            let mut v = self.0[src] >> bs;
            if bs != 0 && src + 1 < L {
                v |= self.0[src + 1] << (64 - bs);
            }
            r[i] = v;
        }
        BigU(r)
    }
    pub fn add(&self, o: &Self) -> Self {
        let mut r = [0u64; L];
        let mut c = 0u64;
        for i in 0..L {
            let (s1, c1) = self.0[i].overflowing_add(o.0[i]);
            let (s2, c2) = s1.overflowing_add(c);
            r[i] = s2;
            c = (c1 as u64) + (c2 as u64);
        }
        assert!(c == 0, "BigU add overflow");
        BigU(r)
    }
    /// self - o, requires self >= o
    pub fn sub(&self, o: &Self) -> Self {
        let mut r = [0u64; L];
        let mut b = 0u64;
        for i in 0..L {
            let (s1, b1) = self.0[i].overflowing_sub(o.0[i]);
            let (s2, b2) = s1.overflowing_sub(b);
            r[i] = s2;
            b = (b1 as u64) + (b2 as u64);
        }
        assert!(b == 0, "BigU sub underflow");
        BigU(r)
    }
    pub fn mul(&self, o: &Self) -> Self {
        let mut r = [0u64; L];
        for i in 0..L {
            if self.0[i] == 0 {
                continue;
            }
            let mut carry = 0u128;
            for j in 0..L {
                if i + j >= L {
                    assert!(o.0[j] == 0 && carry == 0 || o.0[j..].iter().all(|&x| x == 0) && carry == 0, "BigU mul overflow");
                    break;
                }
                let t = (self.0[i] as u128) * (o.0[j] as u128) + (r[i + j] as u128) + carry;
                r[i + j] = t as u64;
                carry = t >> 64;
            }
        }
        BigU(r)
    }
    pub fn cmp(&self, o: &Self) -> Ordering {
        for i in (0..L).rev() {
            if self.0[i] != o.0[i] {
                return self.0[i].cmp(&o.0[i]);
            }
        }
        Ordering::Equal
    }
    pub fn low_u64(&self) -> u64 {
        self.0[0]
    }
    pub fn low_u128(&self) -> u128 {
        (self.0[0] as u128) | ((self.0[1] as u128) << 64)
    }
}

/// Exact dyadic rational: (-1)^neg * mag * 2^exp
#[derive(Clone, Copy, Debug)]
pub struct Dy {
    pub neg: bool,
    pub mag: BigU,
    pub exp: i32,
}

impl Dy {
    pub const ZERO: Dy = Dy { neg: false, mag: BigU::ZERO, exp: 0 };
    pub fn new(neg: bool, m: u64, exp: i32) -> Self {
        Dy { neg: neg && m != 0, mag: BigU::from_u64(m), exp }.norm()
    }
    pub fn from_u128(neg: bool, m: u128, exp: i32) -> Self {
        Dy { neg: neg && m != 0, mag: BigU::from_u128(m), exp }.norm()
    }
    pub fn from_i64(x: i64) -> Self {
        Dy::new(x < 0, x.unsigned_abs(), 0)
    }
    pub fn from_u64(x: u64) -> Self {
        Dy::new(false, x, 0)
    }
    pub fn from_f64(x: f64) -> Option<Self> {
        if !x.is_finite() {
            return None;
        }
        let b = x.to_bits();
        let neg = b >> 63 != 0;
        let e = ((b >> 52) & 0x7ff) as i32;
        let f = b & ((1u64 << 52) - 1);
        if e == 0 {
            Some(Dy::new(neg, f, -1074))
        } else {
            Some(Dy::new(neg, f | (1u64 << 52), e - 1075))
        }
    }
    pub fn from_f32(x: f32) -> Option<Self> {
        if !x.is_finite() {
            return None;
        }
        let b = x.to_bits();
        let neg = b >> 31 != 0;
        let e = ((b >> 23) & 0xff) as i32;
        let f = (b & ((1u32 << 23) - 1)) as u64;
        if e == 0 {
            Some(Dy::new(neg, f, -149))
        } else {
            Some(Dy::new(neg, f | (1u64 << 23), e - 150))
        }
    }
    /// exact conversion to f64 if representable, else None
    pub fn to_f64_exact(&self) -> Option<f64> {
        if self.is_zero() {
            return Some(0.0);
        }
        let bl = self.mag.bitlen();
        if bl > 53 {
            return None;
        }
        let m = self.mag.low_u64();
        // value = m * 2^exp ; top bit position = bl-1+exp
        let top = bl as i32 - 1 + self.exp;
        if top > 1023 || self.exp < -1074 {
            return None;
        }
        let v = (m as f64) * 2f64.powi(self.exp.max(-1000)) * if self.exp < -1000 { 2f64.powi(self.exp + 1000) } else { 1.0 };
        Some(if self.neg { -v } else { v })
    }
    pub fn norm(mut self) -> Self {
        if self.mag.is_zero() {
            return Dy::ZERO;
        }
        let tz = self.mag.trailing_zeros();
        if tz > 0 {
            self.mag = self.mag.shr(tz);
            self.exp += tz as i32;
        }
        self
    }
    pub fn is_zero(&self) -> bool {
        self.mag.is_zero()
    }
    pub fn neg(&self) -> Self {
        let mut r = *self;
        if !r.is_zero() {
            r.neg = !r.neg;
        }
        r
    }
    pub fn abs(&self) -> Self {
        let mut r = *self;
        r.neg = false;
        r
    }
    pub fn mul(&self, o: &Self) -> Self {
        if self.is_zero() || o.is_zero() {
            return Dy::ZERO;
        }
        Dy { neg: self.neg ^ o.neg, mag: self.mag.mul(&o.mag), exp: self.exp + o.exp }.norm()
    }
    pub fn mul_pow2(&self, k: i32) -> Self {
        let mut r = *self;
        if !r.is_zero() {
            r.exp += k;
        }
        r
    }
    fn align(a: &Self, b: &Self) -> (BigU, BigU, i32) {
        let e = a.exp.min(b.exp);
        (a.mag.shl((a.exp - e) as u32), b.mag.shl((b.exp - e) as u32), e)
    }
    pub fn cmp_abs(&self, o: &Self) -> Ordering {
        match (self.is_zero(), o.is_zero()) {
            (true, true) => return Ordering::Equal,
            (true, false) => return Ordering::Less,
            (false, true) => return Ordering::Greater,
            _ => {}
        }
        let ta = self.mag.bitlen() as i64 + self.exp as i64;
        let tb = o.mag.bitlen() as i64 + o.exp as i64;
        if ta != tb {
            return ta.cmp(&tb);
        }
        let (x, y, _) = Dy::align(self, o);
        x.cmp(&y)
    }
    pub fn cmp(&self, o: &Self) -> Ordering {
        match (self.neg, o.neg) {
            (false, true) => Ordering::Greater,
            (true, false) => Ordering::Less,
            (false, false) => self.cmp_abs(o),
            (true, true) => o.cmp_abs(self),
        }
    }
    pub fn add(&self, o: &Self) -> Self {
        if self.is_zero() {
            return *o;
        }
        if o.is_zero() {
            return *self;
        }
        let (x, y, e) = Dy::align(self, o);
        if self.neg == o.neg {
            Dy { neg: self.neg, mag: x.add(&y), exp: e }.norm()
        } else {
            match x.cmp(&y) {
                Ordering::Equal => Dy::ZERO,
                Ordering::Greater => Dy { neg: self.neg, mag: x.sub(&y), exp: e }.norm(),
                Ordering::Less => Dy { neg: o.neg, mag: y.sub(&x), exp: e }.norm(),
            }
        }
    }
    pub fn sub(&self, o: &Self) -> Self {
        self.add(&o.neg())
    }
    /// floor(|self| / 2^k) etc. helpers for integer rounding
    /// Round to nearest integer, ties to even. Returns (neg, magnitude as BigU)
    pub fn round_int_rne(&self) -> (bool, BigU) {
        if self.is_zero() {
            return (false, BigU::ZERO);
        }
        if self.exp >= 0 {
            return (self.neg, self.mag.shl(self.exp as u32));
        }
        let s = (-self.exp) as u32;
        let q = self.mag.shr(s);
        let half = self.mag.bit(s - 1);
        let sticky = self.mag.trailing_zeros() < s - 1;
        let mut r = q;
        if half && (sticky || q.bit(0)) {
            r = r.add(&BigU::from_u64(1));
        }
        (self.neg && !r.is_zero(), r)
    }
    pub fn floor_int(&self) -> Dy {
        if self.is_zero() || self.exp >= 0 {
            return *self;
        }
        let s = (-self.exp) as u32;
        let q = self.mag.shr(s);
        // has fraction (normalized => exp<0 means odd mantissa => fraction nonzero)
        if self.neg {
            Dy { neg: true, mag: q.add(&BigU::from_u64(1)), exp: 0 }.norm()
        } else {
            Dy { neg: false, mag: q, exp: 0 }.norm()
        }
    }
    pub fn ceil_int(&self) -> Dy {
        self.neg().floor_int().neg()
    }
    pub fn trunc_int(&self) -> Dy {
        if self.neg {
            self.ceil_int()
        } else {
            self.floor_int()
        }
    }
}

/// An exact non-negative-or-signed real we can compare against dyadics.
pub trait Exact {
    fn is_zero(&self) -> bool;
    fn is_neg(&self) -> bool;
    /// compare |self| with non-negative dyadic t
    fn cmp_abs(&self, t: &Dy) -> Ordering;
}

impl Exact for Dy {
    fn is_zero(&self) -> bool {
        Dy::is_zero(self)
    }
    fn is_neg(&self) -> bool {
        self.neg
    }
    fn cmp_abs(&self, t: &Dy) -> Ordering {
        Dy::cmp_abs(self, t)
    }
}

pub struct Quot(pub Dy, pub Dy); // num/den, den != 0
impl Exact for Quot {
    fn is_zero(&self) -> bool {
        self.0.is_zero()
    }
    fn is_neg(&self) -> bool {
        self.0.neg ^ self.1.neg
    }
    fn cmp_abs(&self, t: &Dy) -> Ordering {
        self.0.abs().cmp_abs(&self.1.abs().mul(t))
    }
}

pub struct Sqrt(pub Dy); // sqrt of non-negative
impl Exact for Sqrt {
    fn is_zero(&self) -> bool {
        self.0.is_zero()
    }
    fn is_neg(&self) -> bool {
        false
    }
    fn cmp_abs(&self, t: &Dy) -> Ordering {
        self.0.cmp_abs(&t.mul(t))
    }
}

/// f64 value known to lie within [lo,hi] (both same sign, nonzero)
pub struct Interval {
    pub lo: f64,
    pub hi: f64,
}

// ---------------------------------------------------------------- posits

/// Decode an n-bit posit pattern (right aligned in u64, n<=40) with es exponent bits.
/// Returns None for NaR; Some(Dy) otherwise.
pub fn decode(n: u32, es: u32, bits: u64) -> Option<Dy> {
    let mask = if n == 64 { u64::MAX } else { (1u64 << n) - 1 };
    let bits = bits & mask;
    if bits == 0 {
        return Some(Dy::ZERO);
    }
    let signbit = 1u64 << (n - 1);
    if bits == signbit {
        return None;
    }
    let neg = bits & signbit != 0;
    let p = if neg { (bits.wrapping_neg()) & mask } else { bits };
    // p in 1..2^(n-1)-1 ; bits n-2..0
    let mut i = n as i32 - 2; // index of first regime bit
    let first = (p >> i) & 1;
    let mut run = 0i32;
    while i >= 0 && ((p >> i) & 1) == first {
        run += 1;
        i -= 1;
    }
    // i now at terminating bit (or -1)
    let k = if first == 1 { run - 1 } else { -run };
    i -= 1; // skip terminator
    let mut e = 0u64;
    for _ in 0..es {
        e <<= 1;
        if i >= 0 {
            e |= (p >> i) & 1;
            i -= 1;
        }
    }
    let nf = (i + 1).max(0) as u32;
    let frac = if nf > 0 { p & ((1u64 << nf) - 1) } else { 0 };
    let m = (1u64 << nf) | frac;
    let scale = k * (1 << es) + e as i32;
    Some(Dy::new(neg, m, scale - nf as i32))
}

pub fn maxpos_bits(n: u32) -> u64 {
    (1u64 << (n - 1)) - 1
}

/// Posit-standard rounding of exact real x to an n-bit posit with es exponent bits.
/// Returns the n-bit pattern right-aligned.
pub fn round_posit<E: Exact>(n: u32, es: u32, x: &E) -> u64 {
    let mask = (1u64 << n) - 1;
    if x.is_zero() {
        return 0;
    }
    let maxp = maxpos_bits(n);
    let mag: u64 = {
        let dmax = decode(n, es, maxp).unwrap();
        let dmin = decode(n, es, 1).unwrap();
        if x.cmp_abs(&dmax) != Ordering::Less {
            maxp
        } else if x.cmp_abs(&dmin) != Ordering::Greater {
            1
        } else {
            // largest u with decode(u) <= |x|
            let (mut lo, mut hi) = (1u64, maxp); // decode(lo) < |x| < decode(hi)
            while hi - lo > 1 {
                let mid = (lo + hi) / 2;
                match x.cmp_abs(&decode(n, es, mid).unwrap()) {
                    Ordering::Less => hi = mid,
                    Ordering::Equal => {
                        lo = mid;
                        hi = mid;
                    }
                    Ordering::Greater => lo = mid,
                }
            }
            if lo == hi {
                lo
            } else {
                let u = lo;
                let v = decode(n + 1, es, (u << 1) | 1).unwrap();
                match x.cmp_abs(&v) {
                    Ordering::Less => u,
                    Ordering::Greater => u + 1,
                    Ordering::Equal => {
                        if u & 1 == 0 {
                            u
                        } else {
                            u + 1
                        }
                    }
                }
            }
        }
    };
    if x.is_neg() {
        mag.wrapping_neg() & mask
    } else {
        mag
    }
}

/// classify rounding situation for coverage statistics
#[derive(Clone, Copy, Debug, PartialEq, Eq, Hash)]
pub enum RClass {
    Zero,
    Exact,
    SatMax,
    SatMin,
    Tie,
    Inexact,
}

pub fn classify<E: Exact>(n: u32, es: u32, x: &E) -> RClass {
    if x.is_zero() {
        return RClass::Zero;
    }
    let r = round_posit(n, es, x);
    let mask = (1u64 << n) - 1;
    let mag = if x.is_neg() { r.wrapping_neg() & mask } else { r };
    let d = decode(n, es, mag).unwrap();
    match x.cmp_abs(&d) {
        Ordering::Equal => RClass::Exact,
        Ordering::Greater if mag == maxpos_bits(n) => RClass::SatMax,
        Ordering::Less if mag == 1 => RClass::SatMin,
        o => {
            // tie?
            let u = if o == Ordering::Greater { mag } else { mag - 1 };
            let v = decode(n + 1, es, (u << 1) | 1).unwrap();
            if x.cmp_abs(&v) == Ordering::Equal {
                RClass::Tie
            } else {
                RClass::Inexact
            }
        }
    }
}

#[cfg(test)]
mod tests {
    use super::*;
    #[test]
    fn decode_basics() {
        assert_eq!(decode(8, 0, 0x40).unwrap().to_f64_exact(), Some(1.0));
        assert_eq!(decode(8, 0, 0x7f).unwrap().to_f64_exact(), Some(64.0));
        assert_eq!(decode(8, 0, 0x01).unwrap().to_f64_exact(), Some(1.0 / 64.0));
        assert_eq!(decode(16, 1, 0x7fff).unwrap().to_f64_exact(), Some(268435456.0));
        assert_eq!(decode(32, 2, 0x7fffffff).unwrap().to_f64_exact(), Some(2f64.powi(120)));
        assert_eq!(decode(32, 2, 0x00000001).unwrap().to_f64_exact(), Some(2f64.powi(-120)));
        assert_eq!(decode(32, 2, 0xC0000000).unwrap().to_f64_exact(), Some(-1.0));
        assert_eq!(decode(16, 1, 0x5000).unwrap().to_f64_exact(), Some(2.0));
    }
}
