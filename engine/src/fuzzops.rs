//! Byte-level entry point shared by the libFuzzer target (engine/fuzz) and `vcheck fuzz-*` tooling
//! (DESIGN.md 4.4).  A fuzz input is decoded into one case of one property — (op, args) in exactly the
//! grammar of the replay files — and judged by that property's `replay` function, i.e. by the same
//! exact oracle the generated sections use.  libFuzzer only supplies the search (coverage feedback
//! from the instrumented crate under test); nothing here depends on it.
//!
//! input layout:  [sel_lo, sel_hi] selects the table entry (monotone map, so that mutations of the
//! selector move to neighbouring ops), the rest is the argument payload of that entry's kind.
#![allow(dead_code)]
use crate::core::Viol;
use crate::props;

#[derive(Clone, Copy, Debug, PartialEq)]
pub enum Kind {
    /// k little-endian words of w bytes each
    Words(usize, usize),
    /// quire history: perm byte, then steps of 1 + 4*w bytes (code, four operands)
    Hist(usize),
    /// C18: which, arity, x, then coefficient words of w bytes
    Poly(usize),
    /// C19: up to 8 64-bit RNG words
    Script,
}

pub struct Entry {
    pub prop: &'static str,
    pub op: String,
    pub kind: Kind,
}

const FIXED: [(&str, usize); 3] = [("P8E0", 1), ("P16E1", 2), ("P32E2", 4)];
const QUIRES: [(&str, usize); 3] = [("Q8E0", 1), ("Q16E1", 2), ("Q32E2", 4)];

pub fn table() -> &'static Vec<Entry> {
    static T: std::sync::OnceLock<Vec<Entry>> = std::sync::OnceLock::new();
    T.get_or_init(build)
}

fn build() -> Vec<Entry> {
    let mut v: Vec<Entry> = vec![];
    let mut add = |prop: &'static str, op: String, kind: Kind| v.push(Entry { prop, op, kind });
    for (ty, w) in FIXED {
        add("C01", format!("{}.all", ty), Kind::Words(2, w));
        add("C02", format!("{}.from_f32", ty), Kind::Words(1, 4));
        add("C02", format!("{}.from_f64", ty), Kind::Words(1, 8));
        add("C03", format!("{}.floats+text", ty), Kind::Words(1, w));
        add("C05", format!("{}.all", ty), Kind::Words(3, w));
        add("C06", format!("{}.sqrt", ty), Kind::Words(1, w));
        for (i, f) in props::c07::FROM.iter().enumerate() {
            let bytes = [1, 1, 2, 2, 4, 4, 8, 8, 8, 8][i];
            add("C07", format!("{}.{}", ty, f), Kind::Words(1, bytes));
        }
        add("C07", format!("{}.to_int", ty), Kind::Words(1, w));
        for (ty2, _) in FIXED {
            if ty2 != ty {
                add("C08", format!("{}->{}.conv", ty, ty2), Kind::Words(1, w));
                add("C17", format!("{}->{}.spellings", ty, ty2), Kind::Words(1, w));
            }
        }
        add("C09", format!("{}.all", ty), Kind::Words(1, w));
        add("C10", format!("{}.pair", ty), Kind::Words(2, w));
        add("C10", format!("{}.clamp", ty), Kind::Words(3, w));
        add("C17", format!("{}.spellings", ty), Kind::Words(3, w));
        add("C18", format!("{}.poly", ty), Kind::Poly(w));
        add("C19", format!("{}.scripted", ty), Kind::Script);
    }
    for (q, w) in QUIRES {
        add("C04", format!("{}.history", q), Kind::Hist(w));
        add("C12", format!("{}.history", q), Kind::Hist(w));
        add("C12", format!("{}.roundtrip", q), Kind::Words(1, w));
        add("C17", format!("{}.lockstep", q), Kind::Hist(w));
    }
    for f in props::c11::FNS16.iter() {
        add("C11", format!("P16E1.{}", f), Kind::Words(1, 2));
    }
    for f in props::c11::FNS8.iter() {
        add("C11", format!("P8E0.{}", f), Kind::Words(1, 1));
    }
    for f in props::c15::UNARY.iter() {
        add("C15", format!("P32E2.{}", f.name), Kind::Words(1, 4));
    }
    for f in props::c15::BINARY.iter() {
        add("C15", format!("P32E2.{}", f.name), Kind::Words(2, 4));
    }
    for es in [1u32, 2] {
        for n in 2..=32u32 {
            let ty = format!("PxE{}<{}>", es, n);
            add("C10", format!("{}.Ord::clamp", ty), Kind::Words(3, 4));
            for (i, op) in props::c13::OPS.iter().enumerate() {
                if (4..8).contains(&i) {
                    continue; // the *_assign spellings share the code of the plain operators
                }
                let k = match i {
                    8..=10 => 3,
                    11 | 12 => 1,
                    _ => 2,
                };
                add("C13", format!("{}.{}", ty, op), Kind::Words(k, 4));
            }
            for kind in props::c14::KINDS.iter() {
                if *kind == "from_q32e2" {
                    if es == 2 {
                        add("C14", format!("{}.from_q32e2", ty), Kind::Hist(4));
                    }
                    continue;
                }
                add("C14", format!("{}.{}", ty, kind), Kind::Words(1, 8));
            }
        }
    }
    add("C13", "PxE vs fixed".to_string(), Kind::Words(3, 4));
    // generic <-> generic: every (M, N) would be 3 * 961 entries; the fuzz table takes M from a byte of the payload
    for (s, d) in [("PxE2", "PxE1"), ("PxE1", "PxE2"), ("PxE2", "PxE2")] {
        for n in 2..=32u32 {
            add("C14", format!("{}<M>->{}<{}>.g2g", s, d, n), Kind::Words(2, 4));
        }
    }
    v
}

fn word(data: &[u8], pos: &mut usize, w: usize) -> u64 {
    let mut x = 0u64;
    for i in 0..w {
        let b = data.get(*pos + i).copied().unwrap_or(0);
        x |= (b as u64) << (8 * i);
    }
    *pos += w;
    x
}

/// (entry index, op, args) of a fuzz input; `filter` restricts the table to one property
pub fn decode(filter: Option<&str>, data: &[u8]) -> Option<(usize, String, Vec<u64>)> {
    let t = table();
    // the filter is fixed for the life of a fuzzing process: select once (string compares are
    // intercepted by libFuzzer and would dominate the run)
    static IDX: std::sync::OnceLock<(Option<String>, Vec<usize>)> = std::sync::OnceLock::new();
    let cached = IDX.get_or_init(|| {
        let v = match filter {
            Some(p) => t.iter().enumerate().filter(|(_, e)| e.prop == p).map(|(i, _)| i).collect(),
            None => (0..t.len()).collect(),
        };
        (filter.map(|s| s.to_string()), v)
    });
    let owned: Vec<usize>;
    let idx: &Vec<usize> = if cached.0.as_deref() == filter {
        &cached.1
    } else {
        owned = t.iter().enumerate().filter(|(_, e)| Some(e.prop) == filter || filter.is_none()).map(|(i, _)| i).collect();
        &owned
    };
    if idx.is_empty() || data.len() < 2 {
        return None;
    }
    let sel = data[0] as usize | (data[1] as usize) << 8;
    let ei = idx[sel * idx.len() >> 16];
    let e = &t[ei];
    let mut pos = 2usize;
    let mut op = e.op.clone();
    let args: Vec<u64> = match e.kind {
        Kind::Words(k, w) => {
            let mut a: Vec<u64> = (0..k).map(|_| word(data, &mut pos, w)).collect();
            if op.contains("<M>") {
                // second word selects the source width
                let m = 2 + (a[1] % 31) as u32;
                op = op.replace("<M>", &format!("<{}>", m));
                a.truncate(1);
            }
            a
        }
        Kind::Hist(w) => {
            let perm = word(data, &mut pos, 1);
            let mut steps = vec![];
            while pos < data.len() && steps.len() < 24 {
                let code = word(data, &mut pos, 1) % 17;
                let p = [word(data, &mut pos, w), word(data, &mut pos, w), word(data, &mut pos, w), word(data, &mut pos, w)];
                // operand d of the array forms also carries the array length in its top nibble
                let p = if code == 11 || code == 12 { [p[0], p[1], p[2], p[3] | (p[3] & 3) << 60] } else { p };
                steps.push(props::quire::Step { code, p });
            }
            props::quire::encode_history(&steps, perm)
        }
        Kind::Poly(w) => {
            let which = word(data, &mut pos, 1) % 20;
            let arity = 1 + word(data, &mut pos, 1) % 3;
            let x = word(data, &mut pos, w);
            let mut a = vec![which, arity, x];
            while pos < data.len() && a.len() < 3 + 3 * 20 {
                a.push(word(data, &mut pos, w));
            }
            if a.len() == 3 {
                a.push(0);
            }
            a
        }
        Kind::Script => {
            let mut a = vec![];
            while a.len() < 8 && (pos < data.len() || a.is_empty()) {
                a.push(word(data, &mut pos, 8));
            }
            a
        }
    };
    Some((ei, op, args))
}

fn judge(prop: &str, op: &str, args: &[u64]) -> Result<(), Viol> {
    // "Cnn" -> index nn-1 of props::ALL
    let k = prop[1..].parse::<usize>().expect("property id") - 1;
    debug_assert_eq!(props::ALL[k].0, prop);
    (props::ALL[k].2)(op, args)
}

pub enum Outcome {
    Skipped,
    Held,
    Known(&'static str),
    Violated(String, Vec<u64>, Viol),
}

/// Evaluate one fuzz input.  A violated history is first reduced by dropping steps while it still fails.
pub fn run_one(filter: Option<&str>, data: &[u8]) -> Outcome {
    let (ei, op, args) = match decode(filter, data) {
        Some(x) => x,
        None => return Outcome::Skipped,
    };
    let e = &table()[ei];
    match judge(e.prop, &op, &args) {
        Ok(()) => Outcome::Held,
        Err(v) => {
            if let Some(id) = crate::findings::matches(e.prop, &v) {
                return Outcome::Known(id);
            }
            let (mut args, mut v) = (args, v);
            if let Kind::Hist(_) = e.kind {
                let mut progress = true;
                while progress {
                    progress = false;
                    let n = args.len().saturating_sub(1) / 5;
                    for i in 0..n {
                        let mut cand = args.clone();
                        cand.drain(i * 5..i * 5 + 5);
                        if let Err(v2) = judge(e.prop, &op, &cand) {
                            if crate::findings::matches(e.prop, &v2).is_none() {
                                args = cand;
                                v = v2;
                                progress = true;
                                break;
                            }
                        }
                    }
                }
            }
            Outcome::Violated(op, args, v)
        }
    }
}

/// seed inputs of one property: for every entry a zero payload, a "one"-ish payload and a dense payload
pub fn seeds(filter: &str) -> Vec<Vec<u8>> {
    let t = table();
    let idx: Vec<usize> = t.iter().enumerate().filter(|(_, e)| e.prop == filter).map(|(i, _)| i).collect();
    let mut out = vec![];
    for (k, _) in idx.iter().enumerate() {
        // smallest selector that maps to position k
        let sel = (k << 16).div_ceil(idx.len());
        for fill in [0x00u8, 0x40, 0xa5] {
            let mut d = vec![sel as u8, (sel >> 8) as u8];
            d.extend(std::iter::repeat(fill).take(48));
            out.push(d);
        }
    }
    out
}
