//! Generic-width posits PxE1<N> / PxE2<N>: one trait, and run-time dispatch over N = 2..=32.
#![allow(dead_code)]
use softposit::{PxE1, PxE2};

pub trait PX: Copy + Send + Sync + 'static {
    const N: u32;
    const ES: u32;
    const FAMILY: &'static str;
    /// from a left-aligned 32-bit word
    fn fb(b: u32) -> Self;
    fn tb(self) -> u32;
    fn op_add(self, o: Self) -> Self;
    fn op_sub(self, o: Self) -> Self;
    fn op_mul(self, o: Self) -> Self;
    fn op_div(self, o: Self) -> Self;
    fn op_add_assign(self, o: Self) -> Self;
    fn op_sub_assign(self, o: Self) -> Self;
    fn op_mul_assign(self, o: Self) -> Self;
    fn op_div_assign(self, o: Self) -> Self;
    fn op_neg(self) -> Self;
    fn mul_add(self, b: Self, c: Self) -> Self;
    fn mul_sub(self, b: Self, c: Self) -> Self;
    fn sub_product(self, a: Self, b: Self) -> Self;
    fn sqrt(self) -> Option<Self>;
    fn round(self) -> Self;
    // order
    fn eq(self, o: Self) -> bool;
    fn lt(self, o: Self) -> bool;
    fn le(self, o: Self) -> bool;
    fn gt(self, o: Self) -> bool;
    fn ge(self, o: Self) -> bool;
    fn cmp(self, o: Self) -> core::cmp::Ordering;
    fn op_eq(self, o: Self) -> bool;
    fn op_lt(self, o: Self) -> bool;
    fn op_le(self, o: Self) -> bool;
    fn op_gt(self, o: Self) -> bool;
    fn op_ge(self, o: Self) -> bool;
    fn op_cmp(self, o: Self) -> core::cmp::Ordering;
    fn op_partial_cmp(self, o: Self) -> Option<core::cmp::Ordering>;
    fn ord_min(self, o: Self) -> Self;
    fn ord_max(self, o: Self) -> Self;
    fn ord_clamp(self, lo: Self, hi: Self) -> Self;
    fn is_zero(self) -> bool;
    fn is_nar(self) -> bool;
    fn name() -> String {
        format!("{}<{}>", Self::FAMILY, Self::N)
    }
}

macro_rules! impl_px {
    ($T:ident, $es:expr, $fam:expr, $sqrt:expr) => {
        impl<const N: u32> PX for $T<N> {
            const N: u32 = N;
            const ES: u32 = $es;
            const FAMILY: &'static str = $fam;
            #[inline] fn fb(b: u32) -> Self { <$T<N>>::from_bits(b) }
            #[inline] fn tb(self) -> u32 { self.to_bits() }
            #[inline] fn op_add(self, o: Self) -> Self { self + o }
            #[inline] fn op_sub(self, o: Self) -> Self { self - o }
            #[inline] fn op_mul(self, o: Self) -> Self { self * o }
            #[inline] fn op_div(self, o: Self) -> Self { self / o }
            #[inline] fn op_add_assign(self, o: Self) -> Self { let mut x = self; x += o; x }
            #[inline] fn op_sub_assign(self, o: Self) -> Self { let mut x = self; x -= o; x }
            #[inline] fn op_mul_assign(self, o: Self) -> Self { let mut x = self; x *= o; x }
            #[inline] fn op_div_assign(self, o: Self) -> Self { let mut x = self; x /= o; x }
            #[inline] fn op_neg(self) -> Self { -self }
            #[inline] fn mul_add(self, b: Self, c: Self) -> Self { <$T<N>>::mul_add(self, b, c) }
            #[inline] fn mul_sub(self, b: Self, c: Self) -> Self { <$T<N>>::mul_sub(self, b, c) }
            #[inline] fn sub_product(self, a: Self, b: Self) -> Self { <$T<N>>::sub_product(self, a, b) }
            #[inline] fn sqrt(self) -> Option<Self> { $sqrt(self) }
            #[inline] fn round(self) -> Self { <$T<N>>::round(self) }
            #[inline] fn eq(self, o: Self) -> bool { <$T<N>>::eq(self, o) }
            #[inline] fn lt(self, o: Self) -> bool { <$T<N>>::lt(&self, o) }
            #[inline] fn le(self, o: Self) -> bool { <$T<N>>::le(&self, o) }
            #[inline] fn gt(self, o: Self) -> bool { <$T<N>>::gt(&self, o) }
            #[inline] fn ge(self, o: Self) -> bool { <$T<N>>::ge(&self, o) }
            #[inline] fn cmp(self, o: Self) -> core::cmp::Ordering { <$T<N>>::cmp(self, o) }
            #[inline] fn op_eq(self, o: Self) -> bool { PartialEq::eq(&self, &o) }
            #[inline] fn op_lt(self, o: Self) -> bool { PartialOrd::lt(&self, &o) }
            #[inline] fn op_le(self, o: Self) -> bool { PartialOrd::le(&self, &o) }
            #[inline] fn op_gt(self, o: Self) -> bool { PartialOrd::gt(&self, &o) }
            #[inline] fn op_ge(self, o: Self) -> bool { PartialOrd::ge(&self, &o) }
            #[inline] fn op_cmp(self, o: Self) -> core::cmp::Ordering { Ord::cmp(&self, &o) }
            #[inline] fn op_partial_cmp(self, o: Self) -> Option<core::cmp::Ordering> { PartialOrd::partial_cmp(&self, &o) }
            #[inline] fn ord_min(self, o: Self) -> Self { Ord::min(self, o) }
            #[inline] fn ord_max(self, o: Self) -> Self { Ord::max(self, o) }
            #[inline] fn ord_clamp(self, lo: Self, hi: Self) -> Self { Ord::clamp(self, lo, hi) }
            #[inline] fn is_zero(self) -> bool { <$T<N>>::is_zero(self) }
            #[inline] fn is_nar(self) -> bool { <$T<N>>::is_nar(self) }
        }
    };
}
impl_px!(PxE2, 2, "PxE2", |x: PxE2<N>| Some(x.sqrt()));
impl_px!(PxE1, 1, "PxE1", |_x: PxE1<N>| None);

/// run `$body` with the const `$N` bound to the run-time width `$n` (2..=32)
#[macro_export]
macro_rules! with_n {
    ($n:expr, $N:ident, $body:expr) => {
        match $n {
            2 => { const $N: u32 = 2; $body } 3 => { const $N: u32 = 3; $body } 4 => { const $N: u32 = 4; $body }
            5 => { const $N: u32 = 5; $body } 6 => { const $N: u32 = 6; $body } 7 => { const $N: u32 = 7; $body }
            8 => { const $N: u32 = 8; $body } 9 => { const $N: u32 = 9; $body } 10 => { const $N: u32 = 10; $body }
            11 => { const $N: u32 = 11; $body } 12 => { const $N: u32 = 12; $body } 13 => { const $N: u32 = 13; $body }
            14 => { const $N: u32 = 14; $body } 15 => { const $N: u32 = 15; $body } 16 => { const $N: u32 = 16; $body }
            17 => { const $N: u32 = 17; $body } 18 => { const $N: u32 = 18; $body } 19 => { const $N: u32 = 19; $body }
            20 => { const $N: u32 = 20; $body } 21 => { const $N: u32 = 21; $body } 22 => { const $N: u32 = 22; $body }
            23 => { const $N: u32 = 23; $body } 24 => { const $N: u32 = 24; $body } 25 => { const $N: u32 = 25; $body }
            26 => { const $N: u32 = 26; $body } 27 => { const $N: u32 = 27; $body } 28 => { const $N: u32 = 28; $body }
            29 => { const $N: u32 = 29; $body } 30 => { const $N: u32 = 30; $body } 31 => { const $N: u32 = 31; $body }
            32 => { const $N: u32 = 32; $body }
            other => panic!("width {} outside 2..=32", other),
        }
    };
}

/// conversions of the generic-width types (C14); `None` = the crate has no such operation (or an
/// explicit `todo!()` stub)
pub trait PXC: PX {
    fn to_f32(self) -> f32;
    fn to_f64(self) -> f64;
    fn conv_to_f32(self) -> f32;
    fn conv_to_f64(self) -> f64;
    fn from_f32(x: f32) -> Self;
    fn from_f64(x: f64) -> Self;
    fn conv_from_f32(x: f32) -> Self;
    fn conv_from_f64(x: f64) -> Self;
    fn to_p8(self) -> [u64; 2];
    fn to_p16(self) -> [u64; 2];
    fn to_p32(self) -> [u64; 2];
    fn from_p8(b: u8) -> [u32; 2];
    fn from_p16(b: u16) -> [u32; 2];
    fn from_p32(b: u32) -> [u32; 2];
    fn from_i32(x: i32) -> Option<[u32; 2]>;
    fn from_u32(x: u32) -> Option<[u32; 2]>;
    fn from_i64(x: i64) -> Option<[u32; 2]>;
    fn from_u64(x: u64) -> Option<[u32; 2]>;
    fn to_i32(self) -> [i32; 2];
    fn to_u32(self) -> [u32; 2];
    fn to_i64(self) -> [i64; 2];
    fn to_u64(self) -> [u64; 2];
    fn from_q32(q: &softposit::Q32E2) -> Option<u32>;
}

use softposit::{P16E1, P32E2, P8E0};
macro_rules! impl_pxc {
    ($T:ident, $from_i64:expr, $from_u32:expr, $from_q:expr) => {
        impl<const N: u32> PXC for $T<N> {
            fn to_f32(self) -> f32 { <$T<N>>::to_f32(self) }
            fn to_f64(self) -> f64 { <$T<N>>::to_f64(self) }
            fn conv_to_f32(self) -> f32 { f32::from(self) }
            fn conv_to_f64(self) -> f64 { f64::from(self) }
            fn from_f32(x: f32) -> Self { <$T<N>>::from_f32(x) }
            fn from_f64(x: f64) -> Self { <$T<N>>::from_f64(x) }
            fn conv_from_f32(x: f32) -> Self { <$T<N> as From<f32>>::from(x) }
            fn conv_from_f64(x: f64) -> Self { <$T<N> as From<f64>>::from(x) }
            fn to_p8(self) -> [u64; 2] { [self.to_p8e0().to_bits() as u64, P8E0::from(self).to_bits() as u64] }
            fn to_p16(self) -> [u64; 2] { [self.to_p16e1().to_bits() as u64, P16E1::from(self).to_bits() as u64] }
            fn to_p32(self) -> [u64; 2] { [self.to_p32e2().to_bits() as u64, P32E2::from(self).to_bits() as u64] }
            fn from_p8(b: u8) -> [u32; 2] { [<$T<N>>::from_p8e0(P8E0::from_bits(b)).to_bits(), <$T<N> as From<P8E0>>::from(P8E0::from_bits(b)).to_bits()] }
            fn from_p16(b: u16) -> [u32; 2] { [<$T<N>>::from_p16e1(P16E1::from_bits(b)).to_bits(), <$T<N> as From<P16E1>>::from(P16E1::from_bits(b)).to_bits()] }
            fn from_p32(b: u32) -> [u32; 2] { [<$T<N>>::from_p32e2(P32E2::from_bits(b)).to_bits(), <$T<N> as From<P32E2>>::from(P32E2::from_bits(b)).to_bits()] }
            fn from_i32(x: i32) -> Option<[u32; 2]> { Some([<$T<N>>::from_i32(x).to_bits(), <$T<N> as From<i32>>::from(x).to_bits()]) }
            fn from_u32(x: u32) -> Option<[u32; 2]> { $from_u32(x) }
            fn from_i64(x: i64) -> Option<[u32; 2]> { $from_i64(x) }
            fn from_u64(x: u64) -> Option<[u32; 2]> { Some([<$T<N>>::from_u64(x).to_bits(), <$T<N> as From<u64>>::from(x).to_bits()]) }
            fn to_i32(self) -> [i32; 2] { [<$T<N>>::to_i32(self), i32::from(self)] }
            fn to_u32(self) -> [u32; 2] { [<$T<N>>::to_u32(self), u32::from(self)] }
            fn to_i64(self) -> [i64; 2] { [<$T<N>>::to_i64(self), i64::from(self)] }
            fn to_u64(self) -> [u64; 2] { [<$T<N>>::to_u64(self), u64::from(self)] }
            fn from_q32(q: &softposit::Q32E2) -> Option<u32> { $from_q(q) }
        }
    };
}
impl_pxc!(PxE2, |x: i64| Some([PxE2::<N>::from_i64(x).to_bits(), <PxE2<N> as From<i64>>::from(x).to_bits()]), |x: u32| Some([PxE2::<N>::from_u32(x).to_bits(), <PxE2<N> as From<u32>>::from(x).to_bits()]), |q: &softposit::Q32E2| Some(<PxE2<N> as From<&softposit::Q32E2>>::from(q).to_bits()));
// PxE1::from_i64 and PxE1::from_u32 are explicit `todo!()` stubs; PxE1 has no quire conversion
impl_pxc!(PxE1, |_x: i64| None, |_x: u32| None, |_q: &softposit::Q32E2| None);
