//! vcheck — property-based checks of burrbull/softposit-rs (see /verif/DESIGN.md).
//!   vcheck <Cxx> <quick|thorough>      run one property's check
//!   vcheck --replay <file>             re-evaluate one saved case with plain code
//!   vcheck selftest                    oracle self-test only
#[macro_export]
macro_rules! outln {
    ($($a:tt)*) => {{
        use std::io::Write;
        let _ = writeln!(std::io::stdout(), $($a)*);
    }};
}
mod core;
mod fastref;
mod findings;
mod fuzzops;
mod fuzzstage;
mod gen;
mod props;
mod pt;
mod px;
mod refmodel;
mod selftest;

use crate::core::{Cfg, Report, Tier};

fn main() {
    let args: Vec<String> = std::env::args().collect();
    crate::core::install_panic_hook();
    if let Err(e) = findings::load() {
        eprintln!("vcheck: {}", e);
        std::process::exit(2);
    }
    let code = std::panic::catch_unwind(|| run(&args)).unwrap_or_else(|_| {
        eprintln!("vcheck: internal error (harness panic) — inconclusive");
        2
    });
    std::process::exit(code);
}

fn run(args: &[String]) -> i32 {
    let seed: u64 = std::env::var("VERIF_SEED").ok().and_then(|s| s.trim().parse::<i64>().ok()).map(|x| x as u64).unwrap_or(0);
    match args.get(1).map(|s| s.as_str()) {
        Some("selftest") => {
            let r = selftest::run(200_000, seed);
            crate::outln!("{}", r.summary);
            if r.ok { 0 } else { 2 }
        }
        Some("--replay") => {
            let path = args.get(2).expect("--replay <file>");
            props::replay(path)
        }
        Some("--serve") => props::c16::serve(),
        Some("c16-stubs") => props::c16::list_stubs(),
        Some("fuzz-table") => {
            // tooling: size of the libFuzzer operation table per property
            let mut per: std::collections::BTreeMap<&str, usize> = Default::default();
            for e in fuzzops::table() {
                *per.entry(e.prop).or_insert(0) += 1;
            }
            crate::outln!("{} entries: {:?}", fuzzops::table().len(), per);
            0
        }
        Some("c13-survey") => props::c13::survey(),
        Some("c14-survey") => props::c14::survey(),
        Some("c14-probe") => props::c14::probe(args[2].parse().unwrap(), args[3].parse().unwrap(), &args[4]),
        Some("c13-probe") => props::c13::probe(args[2].parse().unwrap(), args[3].parse().unwrap(), &args[4]),
        Some("c15-scan") => {
            // complete scan of one unary C15 function: prints every input whose error exceeds the bound
            props::c15::scan(args.get(2).map(|s| s.as_str()).unwrap_or("tan"))
        }
        Some(p) => {
            let tier = match args.get(2).map(|s| s.as_str()).or(std::env::var("VERIF_TIER").ok().as_deref().map(|_| "")).unwrap_or("quick") {
                "thorough" => Tier::Thorough,
                "" => match std::env::var("VERIF_TIER").as_deref() { Ok("thorough") => Tier::Thorough, _ => Tier::Quick },
                _ => Tier::Quick,
            };
            let prop = match props::ALL.iter().find(|x| x.0.eq_ignore_ascii_case(p)) {
                Some(x) => x,
                None => {
                    eprintln!("unknown property {}", p);
                    return 2;
                }
            };
            // the oracle tests itself first; a failure is "inconclusive", never a violation
            let st = selftest::run(if tier == Tier::Quick { 60_000 } else { 400_000 }, seed);
            if !st.ok {
                crate::outln!("oracle self-test FAILED: {}", st.summary);
                return 2;
            }
            let cfg = Cfg { prop: prop.0, tier, seed };
            let mut rep = Report::new(cfg);
            if crate::core::cov_div() > 1 {
                rep.inconclusive.push(format!("coverage-measurement mode (VCHECK_COV_DIV={}): work thinned, nothing decided", crate::core::cov_div()));
            }
            rep.extra.insert("oracle_selftest".into(), serde_json::json!(st.summary));
            let fuzz_only = std::env::var_os("VCHECK_FUZZ_ONLY").is_some(); // tooling (tools/fuzz_eval.sh): the fuzz stage alone
            if fuzz_only {
                rep.inconclusive.push("VCHECK_FUZZ_ONLY: generated sections skipped (tooling run, decides nothing)".into());
            } else {
                (prop.1)(&mut rep);
            }
            if tier == Tier::Thorough && std::env::var_os("VCHECK_NO_FUZZ").is_none() {
                fuzzstage::run(&mut rep);
            }
            rep.finish()
        }
        None => {
            eprintln!("usage: vcheck <Cxx> <quick|thorough> | --replay <file> | selftest");
            2
        }
    }
}
