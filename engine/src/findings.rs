//! Known findings: genuine defects of the crate that are recorded rather than repaired.
//! `/verif/known_findings.json` (committed, never written at run time) lists the entries and their
//! status; the *class predicates* — narrow models of each defect — live here next to their
//! explanation.  A violating case is excused only if an OPEN entry of the same property matches
//! it; `fixed` entries suppress nothing.
#![allow(dead_code)]
use crate::core::Viol;
use std::sync::OnceLock;

pub struct Finding {
    pub id: &'static str,
    pub props: &'static [&'static str],
    pub what: &'static str,
    pub pred: fn(&Viol) -> bool,
}

/// every predicate known to the engine; whether it is active is decided by known_findings.json
pub static ALL: &[Finding] = &[
    Finding {
        id: "K1-tan-accuracy",
        props: &["C15"],
        what: "P32E2::tan is 4 encodings from the correctly rounded value (stated bound 3) at exactly 54 of the 2^32 inputs (complete scan; results near +-7.9); kernel approximation error, no small repair",
        pred: |v| v.op == "P32E2.tan" && v.kind == "wrong" && v.got.ends_with("(error 4)") && v.args.len() == 1 && TAN_EXCESS.contains(&(v.args[0] as u32)),
    },
    Finding {
        id: "K2-powf-accuracy",
        props: &["C15"],
        what: "P32E2::powf exceeds its stated 5-encoding bound by a small amount at rare (x, y) in [0.5, 5)^2, e.g. powf(0x4ae14c0d, 0x4b045b10) is 6 off; keyed by function with a ceiling of 2 x bound (a larger error, NaR or a panic is still a violation)",
        pred: |v| v.op == "P32E2.powf" && v.kind == "wrong" && excess_at_most(&v.got, 10),
    },
];

/// every input at which tan exceeds its bound on the current tree (complete 2^32 scan, `vcheck c15-scan tan`)
pub static TAN_EXCESS: [u32; 54] = [0x5b1ee847, 0x5b1f0935, 0x5b1f0938, 0x5b1f0b08, 0x5b1f2191, 0x5b1f2c4a, 0x5b1f36b9, 0x5b1f3a5e, 0x647ff798, 0x64800f9c, 0x64801a22, 0x67a4433a, 0x6ac42489, 0x6ac42768, 0x6ac42890, 0x6cdd122f, 0x6da4203e, 0x6f1f21fe, 0x6fe62a04, 0x6fe62f7b, 0x721dcc90, 0x721dccae, 0x733ed35f, 0x7626ecd9, 0x7632b4da, 0x7b5842d9, 0x7c2f113d, 0x83d0eec3, 0x84a7bd27, 0x89cd4b26, 0x89d91327, 0x8cc12ca1, 0x8de23352, 0x8de23370, 0x9019d085, 0x9019d5fc, 0x90e0de02, 0x925bdfc2, 0x9322edd1, 0x953bd770, 0x953bd898, 0x953bdb77, 0x985bbcc6, 0x9b7fe5de, 0x9b7ff064, 0x9b800868, 0xa4e0c5a2, 0xa4e0c947, 0xa4e0d3b6, 0xa4e0de6f, 0xa4e0f4f8, 0xa4e0f6c8, 0xa4e0f6cb, 0xa4e117b9];

/// parse "... (error N)" and test N <= ceiling
fn excess_at_most(got: &str, ceiling: i64) -> bool {
    got.rsplit_once("(error ").and_then(|(_, t)| t.trim_end_matches(')').parse::<i64>().ok()).map(|n| n <= ceiling).unwrap_or(false)
}

static OPEN: OnceLock<Vec<&'static Finding>> = OnceLock::new();

pub fn load() -> Result<(), String> {
    let path = format!("{}/known_findings.json", crate::core::verif_dir());
    let mut open: Vec<&'static Finding> = vec![];
    if let Ok(text) = std::fs::read_to_string(&path) {
        let v: serde_json::Value = serde_json::from_str(&text).map_err(|e| format!("{}: {}", path, e))?;
        if let Some(list) = v.get("findings").and_then(|x| x.as_array()) {
            for e in list {
                let id = e.get("id").and_then(|x| x.as_str()).unwrap_or("");
                let status = e.get("status").and_then(|x| x.as_str()).unwrap_or("");
                if status == "open" {
                    match ALL.iter().find(|f| f.id == id) {
                        Some(f) => open.push(f),
                        None => return Err(format!("known_findings.json lists open finding {} without a predicate in findings.rs", id)),
                    }
                }
            }
        }
    }
    let _ = OPEN.set(open);
    Ok(())
}

pub fn open_for(prop: &str) -> Vec<&'static Finding> {
    OPEN.get().map(|v| v.iter().copied().filter(|f| f.props.contains(&prop)).collect()).unwrap_or_default()
}

pub fn matches(prop: &str, v: &Viol) -> Option<&'static str> {
    let open = OPEN.get()?;
    for f in open.iter() {
        if f.props.contains(&prop) && (f.pred)(v) {
            return Some(f.id);
        }
    }
    None
}
