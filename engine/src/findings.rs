//! Known findings: genuine defects of the crate that are recorded rather than repaired.
//! `/verif/known_findings.json` (committed, never written at run time) lists the entries and their
//! status; the *class predicates* — narrow models of each defect — live here next to their
//! explanation.  A violating case is excused only if an OPEN entry of the same property matches
//! it; `fixed` entries suppress nothing.
#![allow(dead_code)]
use crate::core::Viol;
use std::sync::OnceLock;

pub struct Finding {
    pub id: &'static str,
    pub props: &'static [&'static str],
    pub what: &'static str,
    pub pred: fn(&Viol) -> bool,
}

/// every predicate known to the engine; whether it is active is decided by known_findings.json
pub static ALL: &[Finding] = &[
    // (entries are added below as findings are established)
];

static OPEN: OnceLock<Vec<&'static Finding>> = OnceLock::new();

pub fn load() -> Result<(), String> {
    let path = format!("{}/known_findings.json", crate::core::verif_dir());
    let mut open: Vec<&'static Finding> = vec![];
    if let Ok(text) = std::fs::read_to_string(&path) {
        let v: serde_json::Value = serde_json::from_str(&text).map_err(|e| format!("{}: {}", path, e))?;
        if let Some(list) = v.get("findings").and_then(|x| x.as_array()) {
            for e in list {
                let id = e.get("id").and_then(|x| x.as_str()).unwrap_or("");
                let status = e.get("status").and_then(|x| x.as_str()).unwrap_or("");
                if status == "open" {
                    match ALL.iter().find(|f| f.id == id) {
                        Some(f) => open.push(f),
                        None => return Err(format!("known_findings.json lists open finding {} without a predicate in findings.rs", id)),
                    }
                }
            }
        }
    }
    let _ = OPEN.set(open);
    Ok(())
}

pub fn open_for(prop: &str) -> Vec<&'static Finding> {
    OPEN.get().map(|v| v.iter().copied().filter(|f| f.props.contains(&prop)).collect()).unwrap_or_default()
}

pub fn matches(prop: &str, v: &Viol) -> Option<&'static str> {
    let open = OPEN.get()?;
    for f in open.iter() {
        if f.props.contains(&prop) && (f.pred)(v) {
            return Some(f.id);
        }
    }
    None
}
