//! libFuzzer target (DESIGN.md 4.4): coverage-guided search over (operation, arguments) with the
//! engine's exact oracles inside the target.  The engine's modules are compiled into this binary
//! from the same sources (no second copy of any oracle).
//!   VCHECK_FUZZ_PROP=Cxx   restrict the operation table to one property (required)
//!   VCHECK_FUZZ_OUT=<dir>  where violation files and the final statistics are written
//! A violation does not crash the process: it is written as a replay file (same format as the
//! generated sections') and the campaign goes on, so one defect cannot hide the next.  Only a harness
//! error aborts (and is reported as inconclusive by the caller).
#![no_main]
#![allow(dead_code, unused_imports, unused_macros)]
#[macro_export]
macro_rules! outln {
    ($($a:tt)*) => {{
        use std::io::Write;
        let _ = writeln!(std::io::stdout(), $($a)*);
    }};
}
#[path = "../../src/core.rs"]
mod core;
#[path = "../../src/fastref.rs"]
mod fastref;
#[path = "../../src/findings.rs"]
mod findings;
#[path = "../../src/fuzzops.rs"]
mod fuzzops;
#[path = "../../src/gen.rs"]
mod gen;
#[path = "../../src/props/mod.rs"]
mod props;
#[path = "../../src/pt.rs"]
mod pt;
#[path = "../../src/px.rs"]
mod px;
#[path = "../../src/refmodel.rs"]
mod refmodel;
#[path = "../../src/selftest.rs"]
mod selftest;

/// Coverage feedback restricted to the crate under test.  The whole binary is instrumented (the
/// generic posit code is monomorphised into this crate, so per-crate flags cannot separate it), but
/// the oracles' data-dependent loops would flood libFuzzer with "new coverage" that says nothing
/// about softposit.  Every call into the crate goes through core::guard(); on calibration iterations
/// the 8-bit counters are snapshotted around each guard window, which classifies each counter as
/// crate (changed inside a window at least once) or harness (seen non-zero, never changed inside a
/// window).  At the end of every iteration the harness counters are cleared before libFuzzer reads them.
pub mod fuzzhook {
    // The section bounds are linker-defined symbols that the sancov pass itself declares in every
    // LLVM module, so a Rust `extern static` of the same name is renamed and left unresolved; two
    // assembly thunks reach them instead.
    core::arch::global_asm!(
        ".globl vcheck_cntrs_start",
        "vcheck_cntrs_start:",
        "lea rax, [rip + __start___sancov_cntrs]",
        "ret",
        ".globl vcheck_cntrs_stop",
        "vcheck_cntrs_stop:",
        "lea rax, [rip + __stop___sancov_cntrs]",
        "ret",
    );
    extern "C" {
        fn vcheck_cntrs_start() -> *mut u8;
        fn vcheck_cntrs_stop() -> *mut u8;
    }
    pub struct St {
        pub cal: bool,
        snap: Vec<u8>,
        crate_ever: Vec<bool>,
        harness: Vec<bool>,
        idx: Vec<u32>,
    }
    static mut ST: Option<St> = None;
    fn counters() -> &'static mut [u8] {
        unsafe {
            let a = vcheck_cntrs_start();
            let b = vcheck_cntrs_stop();
            std::slice::from_raw_parts_mut(a, b as usize - a as usize)
        }
    }
    #[allow(static_mut_refs)]
    fn st() -> &'static mut St {
        unsafe {
            if ST.is_none() {
                let n = counters().len();
                ST = Some(St { cal: true, snap: vec![0; n], crate_ever: vec![false; n], harness: vec![false; n], idx: vec![] });
            }
            ST.as_mut().unwrap()
        }
    }
    pub fn begin(cal: bool) {
        if std::env::var_os("VCHECK_FUZZ_DEBUG").is_some() {
            eprintln!("begin: nonzero = {}", counters().iter().filter(|&&x| x != 0).count());
        }
        st().cal = cal;
    }
    #[inline]
    pub fn enter() {
        let s = st();
        if s.cal {
            s.snap.copy_from_slice(counters());
        }
    }
    const BLK: usize = 1024;
    #[inline]
    pub fn exit() {
        let s = st();
        if s.cal {
            let c = counters();
            let mut lo = 0;
            while lo < c.len() {
                let hi = (lo + BLK).min(c.len());
                // slice equality is a memcmp: the (instrumented) byte loop only runs on blocks that changed
                if c[lo..hi] != s.snap[lo..hi] {
                    for i in lo..hi {
                        if c[i] != s.snap[i] && !s.crate_ever[i] {
                            s.crate_ever[i] = true;
                            if s.harness[i] {
                                s.harness[i] = false;
                                s.idx.retain(|&j| j as usize != i);
                            }
                        }
                    }
                }
                lo = hi;
            }
        }
    }
    pub fn end() {
        let s = st();
        let c = counters();
        if s.cal {
            static ZERO: [u8; BLK] = [0; BLK];
            let mut lo = 0;
            while lo < c.len() {
                let hi = (lo + BLK).min(c.len());
                if c[lo..hi] != ZERO[..hi - lo] {
                    for i in lo..hi {
                        if c[i] != 0 && !s.crate_ever[i] && !s.harness[i] {
                            s.harness[i] = true;
                            s.idx.push(i as u32);
                        }
                    }
                }
                lo = hi;
            }
        }
        for &i in &s.idx {
            // idx holds harness counters only (reclassified ones are removed in exit())
            unsafe { *c.get_unchecked_mut(i as usize) = 0 };
        }
        if std::env::var_os("VCHECK_FUZZ_DEBUG").is_some() {
            let nz = c.iter().filter(|&&x| x != 0).count();
            eprintln!("end: nonzero counters left = {}, crate_ever = {}, masked = {}", nz, s.crate_ever.iter().filter(|&&b| b).count(), s.idx.len());
        }
    }
    pub fn summary() -> (usize, usize, usize) {
        let s = st();
        (counters().len(), s.crate_ever.iter().filter(|&&b| b).count(), s.idx.len())
    }
}

use libfuzzer_sys::fuzz_target;
use std::sync::atomic::{AtomicU64, Ordering};
use std::sync::{Mutex, OnceLock};

static EXECS: AtomicU64 = AtomicU64::new(0);
static HELD: AtomicU64 = AtomicU64::new(0);
static SKIPPED: AtomicU64 = AtomicU64::new(0);
static VIOLS: AtomicU64 = AtomicU64::new(0);
static KNOWN: Mutex<Vec<(String, u64)>> = Mutex::new(Vec::new());
static PER_ENTRY: Mutex<Vec<u64>> = Mutex::new(Vec::new());

struct Ctx {
    prop: String,
    out: String,
}
static CTX: OnceLock<Ctx> = OnceLock::new();

extern "C" {
    fn atexit(cb: extern "C" fn()) -> i32;
}

extern "C" fn write_stats() {
    let Some(ctx) = CTX.get() else { return };
    let known: serde_json::Map<String, serde_json::Value> = KNOWN.lock().map(|k| k.iter().map(|(a, b)| (a.clone(), serde_json::json!(b))).collect()).unwrap_or_default();
    let per = PER_ENTRY.lock().map(|p| p.clone()).unwrap_or_default();
    let entries_hit = per.iter().filter(|&&c| c > 0).count();
    let j = serde_json::json!({
        "property": ctx.prop,
        "executions": EXECS.load(Ordering::Relaxed),
        "held": HELD.load(Ordering::Relaxed),
        "skipped_short_inputs": SKIPPED.load(Ordering::Relaxed),
        "violations": VIOLS.load(Ordering::Relaxed),
        "known": known,
        "table_entries": fuzzops::table().iter().filter(|e| e.prop == ctx.prop).count(),
        "table_entries_executed": entries_hit,
        "counters_total": fuzzhook::summary().0,
        "counters_crate_under_test": fuzzhook::summary().1,
        "counters_masked_as_harness": fuzzhook::summary().2,
    });
    let _ = std::fs::write(format!("{}/stats-{}.json", ctx.out, std::process::id()), j.to_string());
}

fn init() -> &'static Ctx {
    CTX.get_or_init(|| {
        let prop = std::env::var("VCHECK_FUZZ_PROP").unwrap_or_else(|_| {
            eprintln!("ops: VCHECK_FUZZ_PROP not set");
            std::process::exit(2)
        });
        let out = std::env::var("VCHECK_FUZZ_OUT").unwrap_or_else(|_| ".".into());
        // libfuzzer-sys installs an aborting panic hook; crate panics must instead be caught by guard()
        let _ = std::panic::take_hook();
        std::panic::set_hook(Box::new(|info| eprintln!("{}", info)));
        core::install_panic_hook();
        if let Err(e) = findings::load() {
            eprintln!("ops: {}", e);
            std::process::exit(2);
        }
        *PER_ENTRY.lock().unwrap() = vec![0; fuzzops::table().len()];
        unsafe { atexit(write_stats) };
        Ctx { prop, out }
    })
}

fuzz_target!(|data: &[u8]| {
    let ctx = init();
    let k = EXECS.fetch_add(1, Ordering::Relaxed);
    if k % 16384 == 16383 {
        write_stats(); // a killed process (watchdog) still leaves its counts behind
    }
    fuzzhook::begin(k < 512 || k % 64 == 0);
    if let Some((ei, _, _)) = fuzzops::decode(Some(&ctx.prop), data) {
        if let Ok(mut p) = PER_ENTRY.lock() {
            p[ei] += 1;
        }
    }
    let r = std::panic::catch_unwind(|| fuzzops::run_one(Some(&ctx.prop), data));
    fuzzhook::end();
    match r {
        Err(_) => {
            // a panic outside guard(): harness error, never a violation
            eprintln!("ops: HARNESS-ERROR on input {:02x?}", data);
            write_stats();
            std::process::exit(3);
        }
        Ok(fuzzops::Outcome::Skipped) => {
            SKIPPED.fetch_add(1, Ordering::Relaxed);
        }
        Ok(fuzzops::Outcome::Held) => {
            HELD.fetch_add(1, Ordering::Relaxed);
        }
        Ok(fuzzops::Outcome::Known(id)) => {
            if let Ok(mut k) = KNOWN.lock() {
                match k.iter_mut().find(|x| x.0 == id) {
                    Some(x) => x.1 += 1,
                    None => k.push((id.to_string(), 1)),
                }
            }
        }
        Ok(fuzzops::Outcome::Violated(op, args, v)) => {
            let n = VIOLS.fetch_add(1, Ordering::Relaxed);
            if n < 8 {
                let key = format!("{}|{:x?}", op, args);
                let j = serde_json::json!({
                    "property": ctx.prop, "op": v.op, "replay_op": op,
                    "args": v.args.iter().map(|a| format!("{:#x}", a)).collect::<Vec<_>>(),
                    "replay_args": args.iter().map(|a| format!("{:#x}", a)).collect::<Vec<_>>(),
                    "want": v.want, "got": v.got, "kind": v.kind,
                    "fuzz_input": data.iter().map(|b| format!("{:02x}", b)).collect::<String>(),
                });
                let _ = std::fs::write(format!("{}/viol-{:016x}.json", ctx.out, core::hash_str(&key)), j.to_string());
            }
        }
    }
});
